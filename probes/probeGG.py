import numpy as np, warnings
import bempp_cl.api as b
v = np.array([[0,1,0,0],[0,0,1,0],[0,0,0,1.]]); e = np.array([[0,0,0,1],[2,1,3,2],[1,3,2,3]])
g=b.Grid(v,e); dp0=b.function_space(g,"DP",0); p1=b.function_space(g,"P",1)
pts=np.array([[2.,0.1],[0.3,-1.5],[0.1,0.7]]); w=0.8
f0=b.GridFunction(dp0,coefficients=np.arange(1,5.)); f1=b.GridFunction(p1,coefficients=np.arange(1,5.))
P=b.operators.potential
for name,sp,f in [('single_layer',dp0,f0),('double_layer',p1,f1)]:
    try:
        a=getattr(P.helmholtz,name)(sp,pts,1j*w).evaluate(f)
    except Exception as ex: a='RAISES %s %s'%(type(ex).__name__,str(ex)[:80])
    m=getattr(P.modified_helmholtz,name)(sp,pts,w).evaluate(f)
    c=getattr(P.helmholtz,name)(sp,pts,1e-12+1j*w).evaluate(f)
    l=getattr(P.laplace,name)(sp,pts).evaluate(f)
    print(name,'\n helmholtz(i w):',a,'\n modified(w):  ',m,'\n helmholtz(1e-12+iw):',c,'\n laplace:',l)
B=b.operators.boundary
A1=B.helmholtz.single_layer(dp0,dp0,dp0,1j*w).weak_form().to_dense(); A2=B.modified_helmholtz.single_layer(dp0,dp0,dp0,w).weak_form().to_dense()
print('boundary SL i*w vs modified:', np.abs(A1-A2).max())
