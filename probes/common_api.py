# shared probe setup: symbolic API-level assembly with UF kernels
from symlib import *
import srchook; srchook.install()
import sparseshim; sparseshim.install()
import time, sys, types, itertools
import bempp_cl.api as b
import bempp_cl.core.numba_kernels as nk
import bempp_cl.api.integration.triangle_gauss as tg, bempp_cl.api.integration.duffy_galerkin as dg
_r = tg.rule; tg.rule = lambda o: tuple(lift_arr(x) for x in _r(o))
_d = dg.rule; dg.rule = lambda o, a: tuple(lift_arr(x) for x in _d(o, a))
def symgrid(v, e, dom=None, tag=''):
    g = b.Grid(np.asarray(v,float), np.asarray(e), None if dom is None else np.asarray(dom,dtype='uint32'))
    NE=g.number_of_elements; NV=g.number_of_vertices
    g._vertices = sym(tag+'v',(3,NV)); g._normals = sym(tag+'n',(NE,3)); g._integration_elements = sym(tag+'ie',(NE,)); g._jacobians = sym(tag+'J',(NE,3,2)); g._jacobian_inverse_transposed = sym(tag+'Jit',(NE,3,2)); g._volumes = g._integration_elements*Fraction(1,2)
    gd = g._grid_data_double
    gd.vertices=g._vertices; gd.normals=g._normals; gd.integration_elements=g._integration_elements; gd.jacobians=g._jacobians; gd.jac_inv_trans=g._jacobian_inverse_transposed; gd.volumes=g._volumes
    return g
def uf_kernel(name, with_normals=True):
    K = z3.Function(name, *([z3.RealSort()]*(9 if with_normals else 6)), z3.RealSort())
    def args(x,y,nx,ny):
        a=[T(c) for c in x]+[T(c) for c in y]
        if with_normals: a+= [T(c) for c in ny]
        return a
    def kreg(tp, yp, tn, yn, params):
        out=np.empty(yp.shape[1],dtype=object)
        for j in range(yp.shape[1]): out[j]=SR(K(*args(list(tp), list(yp[:,j]), list(tn) if tn is not None else [], list(yn[:,j]) if yn is not None else [])))
        return out.view(SA)
    def ksing(tp, yp, tn, yn, params):
        out=np.empty(yp.shape[1],dtype=object)
        for j in range(yp.shape[1]): out[j]=SR(K(*args(list(tp[:,j]), list(yp[:,j]), list(tn), list(yn))))
        return out.view(SA)
    return K, kreg, ksing
def dump(solver, path, logic='QF_UFNRA'):
    open(path,'w').write(f'(set-logic {logic})\n'+solver.to_smt2())
import subprocess
def cvc5(path, timeout=120):
    t=time.time()
    try: out=subprocess.run(['cvc5','--lang','smt2',path],capture_output=True,text=True,timeout=timeout).stdout.strip()
    except subprocess.TimeoutExpired: out='timeout'
    return out, round(time.time()-t,2)
def neq_any(A,B):
    A=np.asarray(A,dtype=object); B=np.asarray(B,dtype=object)
    return z3.Or([T(a)!=T(c) for a,c in zip(A.ravel(),B.ravel())])
TET_V=[[0,1,0,0],[0,0,1,0],[0,0,0,1.]]; TET_E=[[0,0,0,1],[2,1,3,2],[1,3,2,3]]
