import os, time, sys, types
os.environ['NUMBA_DISABLE_JIT']='1'
exec(open('probe7.py').read().split("v = np.array")[0])   # reuse SR, SA, shim setup
import bempp_cl.api.space.scalar_spaces as ss, bempp_cl.api.space.space as sp
for m in (ss, sp): m._np = shim
def build(topo_e, nv):
    v = np.random.RandomState(1).rand(3,nv); g = b.Grid(v, topo_e)
    gd = g._grid_data_double; NE=topo_e.shape[1]
    gd.vertices = sym('v',(3,nv)); gd.normals = sym('n',(NE,3)); gd.integration_elements = sym('ie',(NE,)); gd.jacobians = sym('J',(NE,3,2)); gd.jac_inv_trans = sym('Jit',(NE,3,2))
    return g
e = np.array([[0,0,0,1],[2,1,3,2],[1,3,2,3]])
# add a 5th far-away element pair to exercise regular part: two tets
e2 = np.hstack([e, e+4]); g = build(e2, 8)
p1 = b.function_space(g, "P", 1); dp0 = b.function_space(g, "DP", 0)
K = z3.Function('K', *([z3.RealSort()]*6), z3.RealSort())
def kreg(tp, yp, tn, yn, params):
    out = np.empty(yp.shape[1], dtype=object)
    for j in range(yp.shape[1]): out[j] = SR(K(*[a.t for a in tp], *[yp[i,j].t for i in range(3)]))
    return out.view(SA)
def ksing(tp, yp, tn, yn, params):
    out = np.empty(yp.shape[1], dtype=object)
    for j in range(yp.shape[1]): out[j] = SR(K(*[tp[i,j].t for i in range(3)], *[yp[i,j].t for i in range(3)]))
    return out.view(SA)
nk.laplace_single_layer_regular = kreg; nk.laplace_single_layer_singular = ksing
import bempp_cl.api.integration.triangle_gauss as tg, bempp_cl.api.integration.duffy_galerkin as dg
_r = tg.rule; tg.rule = lambda o: tuple(lift_arr(x) for x in _r(o))
_d = dg.rule; dg.rule = lambda o, a: tuple(lift_arr(x) for x in _d(o, a))
b.GLOBAL_PARAMETERS.quadrature.regular=2; b.GLOBAL_PARAMETERS.quadrature.singular=1
t=time.time()
W = b.operators.boundary.laplace.hypersingular(p1,p1,p1).weak_form().to_dense()
V0 = b.operators.boundary.laplace.single_layer(dp0,dp0,dp0).weak_form().to_dense()
print('assembled', time.time()-t, W.shape, V0.shape)
gd = g.data()
NE = g.number_of_elements
refgrad = np.array([[-1,1,0],[-1,0,1]])
C = [np.zeros((NE, p1.global_dof_count), dtype=object) for _ in range(3)]
for el in range(NE):
    sg = gd.jac_inv_trans[el] @ refgrad   # 3x3 (dim x fun)
    for a in range(3):
        curl = np.cross(gd.normals[el], sg[:,a])
        for c in range(3):
            C[c][el, p1.local2global[el,a]] = C[c][el, p1.local2global[el,a]] + curl[c]*p1.local_multipliers[el,a]
spec = sum(C[c].T @ V0 @ C[c] for c in range(3))
t=time.time()
s = z3.Solver(); s.set('timeout', 300000)
def T(x): return x.t if isinstance(x, SR) else z3.RealVal(x)
s.add(z3.Or([T(W[i,j]) != T(spec[i,j]) for i in range(W.shape[0]) for j in range(W.shape[1])]))
print('z3', s.check(), time.time()-t)
open('f.smt2','w').write('(set-logic QF_UFNRA)\n'+s.to_smt2())
# row sums zero
t=time.time(); s = z3.Solver(); s.set('timeout', 300000)
s.add(z3.Or([z3.Sum([T(W[i,j]) for j in range(W.shape[1])]) != 0 for i in range(W.shape[0])]))
print('rowsum z3', s.check(), time.time()-t)
