import os, time, sys, types
os.environ['NUMBA_DISABLE_JIT']='1'
import numpy as np, z3
from fractions import Fraction
import bempp_cl.api as b

class SR:
    __array_priority__ = 1000
    def __init__(s, t): s.t = t
    @staticmethod
    def lift(o):
        if isinstance(o, SR): return o
        if isinstance(o, (bool, np.bool_)): raise TypeError('bool')
        if isinstance(o, (int, np.integer)): return SR(z3.RealVal(int(o)))
        if isinstance(o, (float, np.floating)): return SR(z3.RealVal(str(Fraction(float(o)))))
        raise TypeError(type(o))
    def __add__(s,o): return SR(s.t + SR.lift(o).t)
    __radd__ = __add__
    def __sub__(s,o): return SR(s.t - SR.lift(o).t)
    def __rsub__(s,o): return SR(SR.lift(o).t - s.t)
    def __mul__(s,o): return SR(s.t * SR.lift(o).t)
    __rmul__ = __mul__
    def __truediv__(s,o): return SR(s.t / SR.lift(o).t)
    def __neg__(s): return SR(-s.t)

class SA(np.ndarray):
    def astype(self, dtype, *a, **k):
        if self.dtype == object: return self
        return np.ndarray.astype(self, dtype, *a, **k)
def sa(a):
    return np.asarray(a, dtype=object).view(SA)
def sym(name, shape):
    a = np.empty(shape, dtype=object)
    for idx in np.ndindex(*shape): a[idx] = SR(z3.Real(name + "_" + "_".join(map(str, idx))))
    return a.view(SA)
def lift_arr(a):
    out = np.empty(a.shape, dtype=object)
    for idx in np.ndindex(*a.shape): out[idx] = SR.lift(a[idx])
    return out.view(SA)

class NPShim(types.ModuleType):
    def __init__(self): super().__init__('npshim')
    def __getattr__(self, n): return getattr(np, n)
    def zeros(self, shape, dtype=None, order='C'):
        if dtype is not None and np.dtype(dtype).kind in 'fc': return np.zeros(shape, dtype=object).view(SA)
        return np.zeros(shape, dtype=dtype)
    def empty(self, shape, dtype=None, order='C'):
        if dtype is not None and np.dtype(dtype).kind in 'fc': return np.zeros(shape, dtype=object).view(SA)
        return np.empty(shape, dtype=dtype)
    def array(self, obj, dtype=None, **k):
        if dtype is not None and np.dtype(dtype).kind in 'fc': return np.array(obj, dtype=object).view(SA)
        return np.array(obj, dtype=dtype, **k)
shim = NPShim()
import bempp_cl.core.numba_kernels as nk, bempp_cl.core.numba_assemblers as na, bempp_cl.core.dense_assembler as da, bempp_cl.core.singular_assembler as sga
for m in (nk, na, da, sga): m._np = shim

v = np.array([[0,1,0,0],[0,0,1,0],[0,0,0,1.]]); e = np.array([[0,0,0,1],[2,1,3,2],[1,3,2,3]])
g = b.Grid(v, e)
p1 = b.function_space(g, "P", 1)
# symbolic twin of grid data
gd = g._grid_data_double
NE = 4
gd.vertices = sym('v',(3,4)); gd.normals = sym('n',(NE,3)); gd.integration_elements = sym('ie',(NE,)); gd.jacobians = sym('J',(NE,3,2)); gd.jac_inv_trans = sym('Jit',(NE,3,2))
K = z3.Function('K', *([z3.RealSort()]*12), z3.RealSort())
def kreg(tp, yp, tn, yn, params):
    out = np.empty(yp.shape[1], dtype=object)
    for j in range(yp.shape[1]):
        out[j] = SR(K(*[a.t for a in tp], *[yp[i,j].t for i in range(3)], *[a.t for a in tn], *[yn[i,j].t for i in range(3)]))
    return out.view(SA)
def ksing(tp, yp, tn, yn, params):
    out = np.empty(yp.shape[1], dtype=object)
    for j in range(yp.shape[1]):
        out[j] = SR(K(*[tp[i,j].t for i in range(3)], *[yp[i,j].t for i in range(3)], *[a.t for a in tn], *[a.t for a in yn]))
    return out.view(SA)
nk.laplace_single_layer_regular = kreg; nk.laplace_single_layer_singular = ksing
import bempp_cl.api.integration.triangle_gauss as tg, bempp_cl.api.integration.duffy_galerkin as dg
_r = tg.rule; tg.rule = lambda o: tuple(lift_arr(x) for x in _r(o))
_d = dg.rule; dg.rule = lambda o, a: tuple(lift_arr(x) for x in _d(o, a))
b.GLOBAL_PARAMETERS.quadrature.regular=1; b.GLOBAL_PARAMETERS.quadrature.singular=1
t=time.time()
A = b.operators.boundary.laplace.single_layer(p1,p1,p1).weak_form().to_dense()
print('symbolic slp', time.time()-t, A.shape, A.dtype, type(A[0,0]))
print(str(A[0,1].t)[:300])
