import numpy as np, z3, time
from fractions import Fraction
from bempp_cl.core import numba_kernels as nk

# abstraction registry: op -> list of (arg_term, result_var)
class Abs:
    def __init__(s): s.apps = {}; s.cons = []; s.n=0
    def app(s, op, arg):
        arg = z3.simplify(arg)
        for (a, r) in s.apps.setdefault(op, []):
            if a.eq(arg): return r
        s.n += 1
        r = z3.Real(f"{op}!{s.n}")
        s.apps[op].append((arg, r))
        if op == 'sqrt': s.cons += [r >= 0, r*r == arg]
        if op == 'exp': s.cons += [r > 0]
        return r
    def ackermann(s):
        out = []
        for op, lst in s.apps.items():
            for i in range(len(lst)):
                for j in range(i+1, len(lst)):
                    out.append(z3.Implies(lst[i][0] == lst[j][0], lst[i][1] == lst[j][1]))
        # cos/sin pythagoras for same arg
        for (a, c) in s.apps.get('cos', []):
            for (b, sn) in s.apps.get('sin', []):
                out.append(z3.Implies(a == b, c*c + sn*sn == 1))
        return out
ABS = Abs()

class SR:
    __array_priority__ = 1000
    def __init__(s, t): s.t = t
    @staticmethod
    def lift(o):
        if isinstance(o, SR): return o
        if isinstance(o, (int, np.integer)): return SR(z3.RealVal(int(o)))
        if isinstance(o, (float, np.floating)):
            f = Fraction(float(o)); return SR(z3.RealVal(str(f)))
        raise TypeError(type(o))
    def __add__(s,o):
        if isinstance(o, SC): return NotImplemented
        return SR(s.t + SR.lift(o).t)
    __radd__ = __add__
    def __sub__(s,o): return SR(s.t - SR.lift(o).t)
    def __rsub__(s,o): return SR(SR.lift(o).t - s.t)
    def __mul__(s,o):
        if isinstance(o, complex): return SC(SR.lift(o.real)*s, SR.lift(o.imag)*s)
        return SR(s.t * SR.lift(o).t)
    __rmul__ = __mul__
    def __truediv__(s,o): return SR(s.t / SR.lift(o).t)
    def __rtruediv__(s,o): return SR(SR.lift(o).t / s.t)
    def __neg__(s): return SR(-s.t)
    def __pow__(s,n):
        r = s
        for _ in range(n-1): r = r*s
        return r
    def __ne__(s,o): return SB(s.t != SR.lift(o).t)
    def sqrt(s): return SR(ABS.app('sqrt', s.t))
    def cos(s): return SR(ABS.app('cos', s.t))
    def sin(s): return SR(ABS.app('sin', s.t))
    def exp(s): return SR(ABS.app('exp', s.t))
class SC:
    __array_priority__ = 1001
    def __init__(s, re, im): s.re, s.im = re, im
    def __radd__(s, o): return SC(SR.lift(o)+s.re, s.im)
    def __add__(s, o): return SC(SR.lift(o)+s.re, s.im)
PATH = []
class SB:
    def __init__(s, t): s.t = t
    def __bool__(s):
        v = DECISION[0]
        PATH.append(s.t if v else z3.Not(s.t)); return v

def sym(name, shape):
    a = np.empty(shape, dtype=object)
    for idx in np.ndindex(*shape):
        a[idx] = SR(z3.Real(name + "_" + "_".join(map(str, idx))))
    return a

f = nk.helmholtz_double_layer_regular.py_func
x = sym('x', (3,)); y = sym('y', (3,1)); nx = sym('n', (3,)); ny = sym('m', (3,1)); kp = sym('k', (2,))
for dec in (True, False):
    ABS.__init__(); PATH.clear()
    DECISION = [dec]
    out = f(x, y, nx, ny, kp)[0]
    # "opencl" side per IR above (spec)
    d = [y[i,0].t - x[i].t for i in range(3)]
    r = ABS.app('sqrt', d[0]*d[0]+d[1]*d[1]+d[2]*d[2])
    dot = d[0]*ny[0,0].t + d[1]*ny[1,0].t + d[2]*ny[2,0].t
    kr, ki = kp[0].t, kp[1].t
    M = z3.RealVal(str(Fraction(0.07957747154594767)))
    arg = r*kr
    c = ABS.app('cos', arg)*M/(r*r*r); s_ = ABS.app('sin', arg)*M/(r*r*r)
    if dec:
        e = ABS.app('exp', r*(-ki)); c2, s2, f3 = c*e, s_*e, r*(-ki) - 1
    else:
        c2, s2, f3 = c, s_, z3.RealVal(-1)
    re = dot*(c2*f3 - arg*s2); im = dot*(arg*c2 + s2*f3)
    sol = z3.Solver(); sol.set('timeout', 60000)
    sol.add(PATH); sol.add(ABS.cons); sol.add(ABS.ackermann())
    sol.add(d[0]*d[0]+d[1]*d[1]+d[2]*d[2] > 0)
    sol.add(z3.Or(out.re.t != re, out.im.t != im))
    t=time.time(); print(dec, sol.check(), time.time()-t, {k:len(v) for k,v in ABS.apps.items()})
    # mutant: flip sign in im
    sol2 = z3.Solver(); sol2.set('timeout', 60000)
    sol2.add(PATH); sol2.add(ABS.cons); sol2.add(ABS.ackermann()); sol2.add(d[0]*d[0]+d[1]*d[1]+d[2]*d[2] > 0)
    sol2.add(z3.Or(out.re.t != re, out.im.t != dot*(arg*c2 - s2*f3)))
    t=time.time(); r2 = sol2.check(); print(' mutant', r2, time.time()-t)
    if r2 == z3.sat: print(sol2.model())
