import numpy as np, time, itertools
from fractions import Fraction as F
from math import factorial
from bempp_cl.api.integration import duffy_galerkin as dg
def I(a,b): return F(factorial(a)*factorial(b), factorial(a+b+2))
for adj in ['coincident','edge_adjacent','vertex_adjacent']:
  for n in range(1,6):
    t=time.time()
    pt,ps,w = dg.rule(n, adj)
    # use float for speed at first to find exactness degree
    res={}
    for deg in range(0, 2*n+2):
        mx=0
        for a,b,c,d in itertools.product(range(deg+1),repeat=4):
            if a+b+c+d!=deg: continue
            q=np.sum(w*pt[0]**a*pt[1]**b*ps[0]**c*ps[1]**d)
            mx=max(mx,abs(q-float(I(a,b)*I(c,d))))
        res[deg]=mx
    exact=[d for d in res if res[d]<1e-13]
    print(adj,n,len(w),'exact degrees:',exact, 'first fail %.1e'%min([res[d] for d in res if res[d]>=1e-13] or [0]), 'sumw', float(np.sum(w)), round(time.time()-t,2))
