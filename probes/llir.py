# probe: tiny symbolic interpreter for the LLVM IR subset clang emits for kernels.h (spir64, -O1)
import re, struct, z3
from fractions import Fraction
from symlib import ABS

def hexdouble(s):
    return struct.unpack('>d', bytes.fromhex(s[2:].rjust(16,'0')))[0]
def fconst(tok):
    tok = tok.strip()
    if tok.startswith('0x'): v = hexdouble(tok)
    else: v = float(tok)
    return z3.RealVal(str(Fraction(v)))

class Fn:
    def __init__(s, name, params, blocks, order): s.name=name; s.params=params; s.blocks=blocks; s.order=order

def parse(path):
    fns = {}; cur=None
    for line in open(path):
        line=line.rstrip('\n')
        m = re.match(r'define .*@([A-Za-z0-9_]+)\((.*)\) local_unnamed_addr', line)
        if m:
            name=m.group(1); params=[]
            for p in split_top(m.group(2)):
                mm = re.match(r'\s*(.+?)\s+(?:[a-z]+(?:\([^)]*\))?\s+)*(%\d+)$', p.strip())
                ty = p.strip().split(' noundef')[0].split(' nocapture')[0].strip()
                params.append((ty, p.strip().split()[-1]))
            cur = Fn(name, params, {}, []); label = 'entry'; cur.blocks[label]=[]; cur.order.append(label); fns[name]=cur; nparams=len(params)
            cur.entry_label = str(nparams)
            continue
        if cur is None: continue
        if line.startswith('}'): cur=None; continue
        m = re.match(r'^(\d+):', line)
        if m: label=m.group(1); cur.blocks[label]=[]; cur.order.append(label); continue
        s=line.strip()
        if not s or s.startswith(';'): continue
        cur.blocks[label].append(s.split(', !tbaa')[0].split(' #')[0] if not s.startswith('%') or 'call' not in s else s.split(', !tbaa')[0])
    return fns

def split_top(s):
    out=[]; depth=0; cur=''
    for ch in s:
        if ch in '<([{': depth+=1
        if ch in '>)]}': depth-=1
        if ch==',' and depth==0: out.append(cur); cur=''
        else: cur+=ch
    if cur.strip(): out.append(cur)
    return out

def tysize(ty):
    ty=ty.strip()
    m=re.match(r'<(\d+) x double>$', ty)
    if m: n=int(m.group(1)); return 4 if n==3 else n
    m=re.match(r'\[(\d+) x (.+)\]$', ty)
    if m: return int(m.group(1))*tysize(m.group(2))
    if ty=='double': return 1
    raise ValueError(ty)
def elemty(ty):
    ty=ty.strip()
    m=re.match(r'<(\d+) x double>$', ty)
    if m: return 'double'
    m=re.match(r'\[(\d+) x (.+)\]$', ty)
    if m: return m.group(2)
    raise ValueError(ty)
def veclen(ty):
    m=re.match(r'<(\d+) x (double|i32)>$', ty.strip()); return int(m.group(1)) if m else None

class Mem:
    def __init__(s, n, init=None): s.cells = list(init) if init is not None else [None]*n

def builtin(name, args):
    mm = re.match(r'_Z(\d+)', name); n_=int(mm.group(1)); base = name[mm.end():mm.end()+n_]
    def lanes(v): return v if isinstance(v, list) else [v]
    if base in ('sqrt','rsqrt','exp','cos','sin'):
        a = args[0]
        def f(x):
            if base=='rsqrt': return ABS.app('inv', ABS.app('sqrt', x))
            return ABS.app(base, x)
        return [f(x) for x in a] if isinstance(a, list) else f(a)
    if base=='dot': return sum(x*y for x,y in zip(args[0][:3], args[1][:3]))
    if base=='length': return ABS.app('sqrt', sum(x*x for x in args[0][:3]))
    if base=='distance': return ABS.app('sqrt', sum((x-y)*(x-y) for x,y in zip(args[0][:3], args[1][:3])))
    raise ValueError(name)

def run(fn, argvals):
    """Return list of (path_condition, ) after executing; memory objects mutated per path copy -> returns list of (pc, mems)"""
    results=[]
    def operand(tok, ty, env):
        tok=tok.strip()
        n = veclen(ty)
        if tok.startswith('%'): return env[tok]
        if tok in ('undef','poison'): return [None]*n if n else None
        if tok=='zeroinitializer': return [z3.RealVal(0)]*n if 'double' in ty else [0]*n
        if tok.startswith('<'):
            items = split_top(tok[1:-1])
            return [ (int(i.split()[-1]) if i.split()[0]=='i32' and i.split()[-1] not in('undef','poison') else (None if i.split()[-1] in ('undef','poison') else fconst(i.split()[-1]))) for i in items]
        if ty.strip()=='double': return fconst(tok)
        return int(tok)
    def bin(op, a, b):
        def f(x,y):
            if op=='fadd': return x+y
            if op=='fsub': return x-y
            if op=='fmul': return x*y
            if op=='fdiv': return x*ABS.app('inv', y)
        if isinstance(a, list): return [None if (x is None or y is None) else f(x,y) for x,y in zip(a,b)]
        return f(a,b)
    import copy
    def exec_from(label, prev, env, mems, pc):
        while True:
            jumped=False
            for ins in fn.blocks[label]:
                m = re.match(r'(%\d+) = (fadd|fsub|fmul|fdiv) (<\d+ x double>|double) (.+)$', ins)
                if m:
                    d,op,ty,rest = m.groups(); a,b_ = split_top(rest); env[d]=bin(op, operand(a,ty,env), operand(b_,ty,env)); continue
                m = re.match(r'(%\d+) = fneg (<\d+ x double>|double) (.+)$', ins)
                if m:
                    d,ty,a=m.groups(); v=operand(a,ty,env); env[d]=[-x for x in v] if isinstance(v,list) else -v; continue
                m = re.match(r'(%\d+) = fcmp (\w+) double (.+), (.+)$', ins)
                if m:
                    d,cc,a,b_=m.groups(); x=operand(a,'double',env); y=operand(b_,'double',env)
                    env[d] = {'une': x!=y, 'oeq': x==y, 'ogt': x>y, 'olt': x<y}[cc]; continue
                m = re.match(r'br i1 (%\d+), label %(\d+), label %(\d+)$', ins)
                if m:
                    c,a,b_=m.groups()
                    for (tgt, cond) in ((a, env[c]), (b_, z3.Not(env[c]))):
                        exec_from(tgt, label, dict(env), copy.deepcopy(mems) if False else {k:Mem(0,v.cells) for k,v in mems.items()}, pc+[cond])
                    return
                m = re.match(r'br label %(\d+)$', ins)
                if m: prev=label; label=m.group(1); jumped=True; break
                m = re.match(r'(%\d+) = phi (<\d+ x double>|double) (.+)$', ins)
                if m:
                    d,ty,rest=m.groups()
                    for val,lab in re.findall(r'\[ (.+?), %(\d+) \]', rest):
                        if lab==(prev if prev!='entry' else fn.entry_label): env[d]=operand(val,ty,env)
                    continue
                m = re.match(r'(%\d+) = load (.+?), (.+?)\* (%\d+)', ins)
                if m:
                    d,ty,_,p=m.groups(); obj,off=env[p]; n=veclen(ty)
                    env[d] = mems[obj].cells[off:off+n] if n else mems[obj].cells[off]; continue
                m = re.match(r'store (<\d+ x double>|double) (.+), (?:<\d+ x double>|double)\* (%\d+)', ins)
                if m:
                    ty,v,p=m.groups(); obj,off=env[p]; val=operand(v,ty,env)
                    if isinstance(val,list):
                        for i,x in enumerate(val): mems[obj].cells[off+i]=x
                    else: mems[obj].cells[off]=val
                    continue
                m = re.match(r'(%\d+) = getelementptr inbounds (.+?), (.+?)\* (%\d+), (.+)$', ins)
                if m:
                    d,ty,_,p,idxs=m.groups(); obj,off=env[p]
                    idx=[int(i.split()[-1]) for i in idxs.split(',')]
                    off += idx[0]*tysize(ty); t=ty
                    for i in idx[1:]:
                        t2=elemty(t); off += i*tysize(t2); t=t2
                    env[d]=(obj,off); continue
                m = re.match(r'(%\d+) = shufflevector (<\d+ x double>) (.+?), (<\d+ x double>) (.+?), (<\d+ x i32>) (.+)$', ins)
                if m:
                    d,ty1,a,ty2,b_,mty,mask=m.groups(); A=operand(a,ty1,env); B=operand(b_,ty2,env)
                    n=veclen(ty1); M=operand(mask,mty,env) if mask.strip()!='zeroinitializer' else [0]*veclen(mty)
                    both=list(A)+list(B if isinstance(B,list) else [None]*n)
                    env[d]=[None if i is None else both[i] for i in M]; continue
                m = re.match(r'(%\d+) = insertelement (<\d+ x double>) (.+?), double (.+?), i64 (\d+)$', ins)
                if m:
                    d,ty,a,v,i=m.groups(); A=list(operand(a,ty,env)); A[int(i)]=operand(v,'double',env); env[d]=A; continue
                m = re.match(r'(%\d+) = extractelement (<\d+ x double>) (.+?), i64 (\d+)$', ins)
                if m:
                    d,ty,a,i=m.groups(); env[d]=operand(a,ty,env)[int(i)]; continue
                m = re.match(r'(%\d+) = call spir_func (.+?) @([A-Za-z0-9_]+)\((.*)\)', ins)
                if m:
                    d,rty,name,args=m.groups(); av=[]
                    for a in split_top(args):
                        a=a.strip(); ty=a.split(' noundef')[0]; tok=a.split()[-1]; av.append(operand(tok,ty,env))
                    env[d]=builtin(name,av); continue
                if ins.startswith('ret'):
                    results.append((pc, mems)); return
                raise ValueError('unhandled: '+ins)
            if not jumped: raise ValueError('fell off block '+label)
    env={}; mems={}
    for (ty,name),val in zip(fn.params, argvals):
        if isinstance(val, Mem): mems[name]=val; env[name]=(name,0)
        else: env[name]=val
    exec_from('entry','entry',env,mems,[])
    return results
