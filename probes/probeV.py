from common_api import *
gA=symgrid([[0,1,0,1.],[0,0,1,1],[0,0,0,.3]], [[0,1],[1,3],[2,2]], tag='a')
gB=symgrid([[5,6,5.],[0,0,1],[1,1,2]], [[0],[1],[2]], tag='b')
K,kreg,ksing=uf_kernel('K'); nk.laplace_double_layer_regular=kreg; nk.laplace_single_layer_regular=kreg
order=2
b.GLOBAL_PARAMETERS.quadrature.regular=order
pA=b.function_space(gA,"P",1,include_boundary_dofs=True); dA=b.function_space(gA,"DP",0)
tB=b.function_space(gB,"DP",1)
for name,opb,opp,dom in [('SL', b.operators.boundary.laplace.single_layer, b.operators.potential.laplace.single_layer, dA), ('DL', b.operators.boundary.laplace.double_layer, b.operators.potential.laplace.double_layer, pA)]:
    t=time.time()
    Bm = opb(dom, tB, tB).weak_form().to_dense()          # rows: test on B, cols: trial on A
    pts = gB.map_to_point_cloud(order)                    # (Q*NE_B, 3)
    pot = opp(dom, pts.T)
    qp, qw = tg.rule(order)
    spec = np.zeros(Bm.shape, dtype=object)
    for j in range(dom.global_dof_count):
        c = np.zeros(dom.global_dof_count, dtype=object); c[j]=1
        vals = pot.evaluate(b.GridFunction(dom, coefficients=lift_arr(c) if False else c))[0]    # values at all points
        for el in range(gB.number_of_elements):
            phi = tB.evaluate(el, qp)[0]     # (nshape, Q)
            for i in range(3):
                spec[tB.local2global[el,i], j] = spec[tB.local2global[el,i], j] + sum(qw[q]*gB._integration_elements[el]*phi[i,q]*vals[el*len(qw)+q] for q in range(len(qw)))
    s=z3.Solver(); s.add(neq_any(Bm,spec)); dump(s,'v.smt2')
    print(name, Bm.shape, round(time.time()-t,2), 'cvc5', cvc5('v.smt2'))
