import os, time
os.environ['NUMBA_DISABLE_JIT']='1'
import numpy as np, z3
import bempp_cl.api.grid.grid as G

class Restart(BaseException): pass
class Eng:
    def __init__(s): s.prefix=[]; s.pos=0; s.solver=z3.Solver(); s.pc=[]
    def decide(s, t):
        if s.pos < len(s.prefix):
            v = s.prefix[s.pos]
        else:
            # try True first if feasible
            s.solver.push(); s.solver.add(t); okT = s.solver.check()==z3.sat; s.solver.pop()
            s.solver.push(); s.solver.add(z3.Not(t)); okF = s.solver.check()==z3.sat; s.solver.pop()
            if okT and okF: v=True; s.prefix.append(True); s.open.append(len(s.prefix)-1)
            elif okT: v=True; s.prefix.append(True)
            else: v=False; s.prefix.append(False)
        s.pos+=1
        c = t if v else z3.Not(t)
        s.solver.add(c); s.pc.append(c)
        return v
E=None
class SI:
    def __init__(s,t): s.t=t
    def __eq__(s,o): return SB(s.t == (o.t if isinstance(o,SI) else int(o)))
    def __ne__(s,o): return SB(s.t != (o.t if isinstance(o,SI) else int(o)))
    def __hash__(s): return 0
class SB:
    def __init__(s,t): s.t=t
    def __bool__(s): return E.decide(s.t)

def explore(fn, assume):
    global E
    results=[]; stack=[[]]
    while stack:
        pre = stack.pop()
        E = Eng(); E.prefix=list(pre); E.open=[]; E.solver.add(assume)
        out = fn()
        results.append((list(E.pc), out))
        for idx in E.open:
            alt = E.prefix[:idx]+[False]
            stack.append(alt)
    return results

els = np.empty((3,2),dtype=object)
vs = [[z3.Int(f'e{j}_{i}') for i in range(3)] for j in range(2)]
for j in range(2):
    for i in range(3): els[i,j]=SI(vs[j][i])
def shares(k):
    eqs=[z3.If(vs[0][i]==vs[1][j],1,0) for i in range(3) for j in range(3)]
    return z3.Sum(eqs)==k
assume=[z3.Distinct(*vs[0]), z3.Distinct(*vs[1]), shares(2)]
t=time.time()
res = explore(lambda: G._get_shared_edge_information_for_two_elements(els,0,1), assume)
print(len(res),'paths', time.time()-t)
# property: for each path, index pairs valid
bad=0
for pc,ip in res:
    s=z3.Solver(); s.add(assume); s.add(pc)
    a=[[int(ip[r,c]) for c in range(2)] for r in range(2)]
    ok = z3.And(vs[0][a[0][0]]==vs[1][a[1][0]], vs[0][a[0][1]]==vs[1][a[1][1]], a[0][0]!=a[0][1], a[1][0]!=a[1][1])
    s.add(z3.Not(ok)); r=s.check()
    if r!=z3.unsat: bad+=1
print('bad',bad, time.time()-t)
