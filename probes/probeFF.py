import numpy as np
import bempp_cl.api as b
v = np.array([[1,-1.3,0,0,0.2,0],[0,0,1.1,-1,0,0],[0,0,0.1,0,1.4,-0.8]])
e = np.array([[0,2,4],[2,1,4],[1,3,4],[3,0,4],[2,0,5],[1,2,5],[3,1,5],[0,3,5]]).T
g = b.Grid(v, e)
p1=b.function_space(g,"P",1); d0=b.function_space(g,"DUAL",0); dp0=b.function_space(g,"DP",0)
b.GLOBAL_PARAMETERS.quadrature.regular=4
M=b.operators.boundary.sparse.identity(p1,p1,d0).weak_form().to_dense()   # rows: dual0 test, cols: p1
# exact
bg=g.barycentric_refinement
E=np.zeros_like(M)
for el in range(g.number_of_elements):
    A=g.volumes[el]
    lam={}  # barycentric coords (wrt parent vertices) of the 7 points
    for j in range(6):
        be=6*el+j
        # coordinates of bary vertices in parent barycentric coords
        V0=g.vertices[:,g.elements[0,el]]; J=np.c_[g.vertices[:,g.elements[1,el]]-V0, g.vertices[:,g.elements[2,el]]-V0]
        vals=[]
        for k in range(3):
            X=bg.vertices[:,bg.elements[k,be]]; l=np.linalg.lstsq(J,X-V0,rcond=None)[0]; vals.append([1-l[0]-l[1],l[0],l[1]])
        vals=np.array(vals)   # 3 bary vertices x 3 parent shape fns
        # which dual0 dof owns this sub-triangle: the parent vertex it touches = bary vertex 0
        owner=bg.elements[0,be]   # parent vertex id (bary vertices 0..nv-1 are the original ones)
        row=owner   # dual0 dof index == P1 dof index == vertex (full grid, closed)
        for i in range(3):
            col=p1.local2global[el,i]
            E[row,col]+=bg.volumes[be]*vals[:,i].mean()
print('dual0 dofs == vertices?', d0.global_dof_count, g.number_of_vertices)
print('max |M-E| =', np.abs(M-E).max(), ' max|E|', np.abs(E).max())
print('row sums M', M.sum(axis=1)[:3], 'row sums E', E.sum(axis=1)[:3])
# also p1 x p1 through barycentric path: identity(p1,p1,p1) vs with dual space forcing barycentric: compare P1 mass computed on bary representation
bs=p1.barycentric_representation()
Mb=b.operators.boundary.sparse.identity(bs,bs,bs).weak_form().to_dense(); M0=b.operators.boundary.sparse.identity(p1,p1,p1).weak_form().to_dense()
print('P1 mass via barycentric repr vs direct: max diff', np.abs(Mb-M0).max(), 'max', M0.max())
