# probe: import hook that recompiles bempp_cl modules from source with numpy -> shim
import ast, sys, importlib.machinery as M
sys.dont_write_bytecode = True
class Tx(ast.NodeTransformer):
    def visit_Import(self, node):
        out = []
        for a in node.names:
            if a.name == 'numpy':
                out.append(ast.ImportFrom(module='symlib', names=[ast.alias(name='shim', asname=a.asname or 'numpy')], level=0))
            else:
                out.append(ast.Import(names=[a]))
        return [ast.copy_location(o, node) for o in out]
_orig = M.SourceFileLoader.get_code
def get_code(self, fullname):
    path = self.get_filename(fullname)
    if '/bempp_cl/' in path and path.endswith('.py'):
        src = self.get_data(path)
        tree = ast.parse(src, path)
        tree = ast.fix_missing_locations(Tx().visit(tree))
        return compile(tree, path, 'exec', dont_inherit=True)
    return _orig(self, fullname)
def install(): M.SourceFileLoader.get_code = get_code
