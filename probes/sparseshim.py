# probe: dense-backed stand-in for scipy.sparse matrices holding symbolic entries
import numpy as np, scipy.sparse as sps, scipy.sparse.linalg as spl
from symlib import SA, SR
_real_coo, _real_csr, _real_aslin = sps.coo_matrix, sps.csr_matrix, spl.aslinearoperator

def _is_obj(x):
    return isinstance(x, np.ndarray) and x.dtype == object
def todense_obj(m):
    if isinstance(m, DS): return m.a
    if sps.issparse(m): m = m.toarray()
    return np.asarray(m, dtype=object).view(SA)

class DS:
    """Dense symbolic 'sparse' matrix."""
    def __init__(s, a): s.a = np.asarray(a, dtype=object).view(SA); s.shape = s.a.shape; s.dtype = np.dtype(object)
    def tocsr(s): return s
    def tocsc(s): return s
    def tocoo(s): return s
    def toarray(s): return s.a
    def todense(s): return s.a
    @property
    def T(s): return DS(s.a.T)
    def transpose(s): return DS(s.a.T)
    def conjugate(s): return s
    def __matmul__(s, o):
        if isinstance(o, DS) or sps.issparse(o): return DS(s.a @ todense_obj(o))
        return s.a @ np.asarray(o, dtype=object)
    def __rmatmul__(s, o): return DS(todense_obj(o) @ s.a)
    def dot(s, o): return s.__matmul__(o)
    def __mul__(s, o):
        if np.isscalar(o) or isinstance(o, SR): return DS(s.a * o)
        return s.__matmul__(o)
    def __rmul__(s, o): return DS(s.a * o)
    def __add__(s, o): return DS(s.a + todense_obj(o))
    __radd__ = __add__
    def __neg__(s): return DS(-s.a)
    def __sub__(s, o): return DS(s.a - todense_obj(o))
    def diagonal(s): return np.diagonal(s.a).view(SA)

def coo_matrix(arg, shape=None, dtype=None, **k):
    if isinstance(arg, tuple) and len(arg) == 2 and isinstance(arg[1], tuple) and _is_obj(np.asarray(arg[0])) :
        data, (ii, jj) = arg
        a = np.zeros(shape, dtype=object)
        for d, i, j in zip(np.asarray(data).ravel(), np.asarray(ii).ravel(), np.asarray(jj).ravel()):
            a[int(i), int(j)] = a[int(i), int(j)] + d
        return DS(a)
    return _real_coo(arg, shape=shape, dtype=dtype, **k)
def csr_matrix(arg, shape=None, dtype=None, **k):
    if isinstance(arg, DS): return arg
    return _real_csr(arg, shape=shape, dtype=dtype, **k)

class LO:
    """symbolic linear operator (dense)."""
    def __init__(s, a): s.a = todense_obj(a); s.shape = s.a.shape; s.dtype = np.dtype(object)
    def __matmul__(s, o):
        if isinstance(o, LO): return LO(s.a @ o.a)
        return s.a @ np.asarray(o, dtype=object)
    def matvec(s, x): return s.a @ np.asarray(x, dtype=object)
    dot = __matmul__
    __mul__ = __matmul__
    @property
    def T(s): return LO(s.a.T)
def aslinearoperator(m):
    if isinstance(m, LO): return m
    return LO(m)
def install():
    sps.coo_matrix = coo_matrix; sps.csr_matrix = csr_matrix; spl.aslinearoperator = aslinearoperator
    import scipy.sparse.linalg._interface as _i

# --- real scipy sparse (concrete) x symbolic dense operand -> dense object product
import scipy.sparse._base as _spb
_orig_dispatch = _spb._spbase._matmul_dispatch
def _matmul_dispatch(self, other):
    if isinstance(other, DS): return DS(todense_obj(self) @ other.a)
    if isinstance(other, np.ndarray) and other.dtype == object:
        return (todense_obj(self) @ other).view(SA)
    return _orig_dispatch(self, other)
_spb._spbase._matmul_dispatch = _matmul_dispatch
_orig_rdispatch = getattr(_spb._spbase, '_rmatmul_dispatch', None)
if _orig_rdispatch is not None:
    def _rmatmul_dispatch(self, other):
        if isinstance(other, np.ndarray) and other.dtype == object:
            return (other @ todense_obj(self)).view(SA)
        return _orig_rdispatch(self, other)
    _spb._spbase._rmatmul_dispatch = _rmatmul_dispatch
