# C11(i): adjacency discovery with symbolic vertex ids, through real grid code + symbolic-index sparse model
import os, time, itertools
os.environ['NUMBA_DISABLE_JIT']='1'
import numpy as np, z3
import scipy.sparse as sps
import bempp_cl.api.grid.grid as G

class Eng:
    def __init__(s, prefix, assume): s.prefix=list(prefix); s.pos=0; s.solver=z3.Solver(); s.solver.add(assume); s.pc=[]; s.open=[]
    def decide(s, t):
        t = z3.simplify(t)
        if z3.is_true(t): return True
        if z3.is_false(t): return False
        if s.pos < len(s.prefix): v = s.prefix[s.pos]
        else:
            s.solver.push(); s.solver.add(t); okT = s.solver.check()==z3.sat; s.solver.pop()
            s.solver.push(); s.solver.add(z3.Not(t)); okF = s.solver.check()==z3.sat; s.solver.pop()
            if okT and okF: v=True; s.prefix.append(True); s.open.append(len(s.prefix)-1)
            elif okT: v=True; s.prefix.append(True)
            else: v=False; s.prefix.append(False)
        s.pos+=1
        c = t if v else z3.Not(t); s.solver.add(c); s.pc.append(c); return v
E=[None]
def L(o): return o.t if isinstance(o,SI) else z3.IntVal(int(o))
class SI:
    def __init__(s,t): s.t=t
    def __eq__(s,o): return SB(s.t == L(o))
    def __ne__(s,o): return SB(s.t != L(o))
    def __lt__(s,o): return SB(s.t < L(o))
    def __gt__(s,o): return SB(s.t > L(o))
    def __add__(s,o): return SI(s.t + L(o))
    __radd__=__add__
    def __mul__(s,o): return SI(s.t * L(o))
    __rmul__=__mul__
    def __hash__(s): return 0
    def __repr__(s): return 'SI(%s)'%s.t
class SB:
    def __init__(s,t): s.t=t
    def __bool__(s): return E[0].decide(s.t)
def explore(fn, assume, maxpaths=100000):
    results=[]; stack=[[]]
    while stack:
        pre = stack.pop(); e = Eng(pre, assume); E[0]=e
        out = fn(); results.append((list(e.pc), out))
        for idx in e.open: stack.append(e.prefix[:idx]+[False])
        assert len(results) < maxpaths
    return results

# symbolic-index sparse model: dense count matrix with ITE entries
class SymCount:
    def __init__(s, a): s.a=a; s.shape=a.shape
    @property
    def T(s): return SymCount(s.a.T)
    def dot(s, o): 
        n,m = s.shape[0], o.shape[1]; out=np.empty((n,m),dtype=object)
        for i in range(n):
            for j in range(m):
                out[i,j]=SI(z3.Sum([L(s.a[i,k])*L(o.a[k,j]) for k in range(s.shape[1])]))
        return SymCount(out)
    def tocoo(s):
        rows=[];cols=[];data=[]
        for i in range(s.shape[0]):
            for j in range(s.shape[1]):
                if s.a[i,j] != 0:     # forks
                    rows.append(i); cols.append(j); data.append(s.a[i,j])
        class C: pass
        c=C(); c.row=np.array(rows,dtype=int); c.col=np.array(cols,dtype=int); c.data=np.array(data,dtype=object); return c
_real_csr = sps.csr_matrix
def csr_matrix(arg, shape=None, dtype=None):
    data,(ii,jj)=arg
    if any(isinstance(x,SI) for x in np.asarray(ii,dtype=object).ravel()):
        a=np.empty(shape,dtype=object)
        for r in range(shape[0]):
            for c in range(shape[1]):
                a[r,c]=SI(z3.Sum([z3.If(L(i)==r, 1, 0) for i,j in zip(ii,jj) if int(j)==c]))
        return SymCount(a)
    return _real_csr(arg, shape=shape, dtype=dtype)
sps.csr_matrix = csr_matrix

N=2; Vn=5
vs=[[z3.Int(f'e{j}_{i}') for i in range(3)] for j in range(N)]
els=np.empty((3,N),dtype=object)
for j in range(N):
    for i in range(3): els[i,j]=SI(vs[j][i])
assume=[z3.Distinct(*vs[j]) for j in range(N)]+[z3.And(v>=0, v<Vn) for row in vs for v in row]
verts=np.zeros((3,Vn))
def run():
    m = G.get_element_to_element_matrix(verts, els)
    e1,e2,nv = G._get_element_to_element_vertex_count(m)
    # _element_filter uses nvertices == filter_type on arrays -> do elementwise (forks)
    pairs={1:[],2:[],3:[]}
    for a,c,n in zip(e1,e2,nv):
        for k in (1,2,3):
            if n == k: pairs[k].append((int(a),int(c))); break
    return pairs
t=time.time(); res=explore(run, assume); print(len(res),'paths',round(time.time()-t,2))
bad=0
for pc,pairs in res:
    s=z3.Solver(); s.add(assume); s.add(pc)
    # oracle: shared count between element a,c
    def shared(a,c): return z3.Sum([z3.If(vs[a][i]==vs[c][j],1,0) for i in range(3) for j in range(3)])
    conds=[]
    for a in range(N):
        for c in range(N):
            for k in (1,2,3):
                conds.append((shared(a,c)==k) == z3.BoolVal((a,c) in pairs[k]))
    s.add(z3.Not(z3.And(conds)))
    if s.check()!=z3.unsat: bad+=1
print('bad',bad,round(time.time()-t,2))
