import z3, time
from fractions import Fraction as F
from math import factorial
Q=4
x=[z3.Real(f'x{q}') for q in range(Q)]; y=[z3.Real(f'y{q}') for q in range(Q)]; w=[z3.Real(f'w{q}') for q in range(Q)]
def I(a,b): return z3.RealVal(str(F(factorial(a)*factorial(b), factorial(a+b+2))))
def pw(t,n):
    r=z3.RealVal(1)
    for _ in range(n): r=r*t
    return r
def moments(deg):
    return [z3.Sum([w[q]*pw(x[q],a)*pw(y[q],b) for q in range(Q)])==I(a,b) for a in range(deg+1) for b in range(deg+1-a)]
phi=lambda q:[1-x[q]-y[q], x[q], y[q]]
for deg in (2,):
    s=z3.Solver(); s.set('timeout',120000); s.add(moments(deg))
    neg=[]
    for i in range(3):
        for j in range(3):
            m=z3.Sum([w[q]*phi(q)[i]*phi(q)[j] for q in range(Q)])
            neg.append(m != z3.RealVal(str(F(2 if i==j else 1,24))))
    s.add(z3.Or(neg))
    t=time.time(); print('P1 mass under moments deg',deg, s.check(), round(time.time()-t,3))
# reach: assumptions satisfiable
s=z3.Solver(); s.set('timeout',60000); s.add(moments(2)); t=time.time(); print('reach', s.check(), round(time.time()-t,3))
