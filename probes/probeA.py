import numpy as np, time
from fractions import Fraction as F
from math import factorial
from bempp_cl.api.integration import triangle_gauss as tg, gauss as g1
t=time.time()
worst=[]
for n in range(1,21):
    try:
        p,w = tg.rule(n)
    except Exception as e:
        print(n,'ERR',e); continue
    P=[[F(float(x)) for x in row] for row in p]; W=[F(float(x)) for x in w]
    mx=F(0); arg=None
    for a in range(n+1):
        for b in range(n+1-a):
            q=sum(W[i]*P[0][i]**a*P[1][i]**b for i in range(len(W)))
            ex=F(factorial(a)*factorial(b), factorial(a+b+2))
            e=abs(q-ex)
            if e>mx: mx=e; arg=(a,b)
    # also one degree higher to see actual degree
    mx2=F(0)
    for a in range(n+2):
        b=n+1-a
        q=sum(W[i]*P[0][i]**a*P[1][i]**b for i in range(len(W)))
        ex=F(factorial(a)*factorial(b), factorial(a+b+2)); mx2=max(mx2,abs(q-ex))
    inside = all(P[0][i]>=0 and P[1][i]>=0 and P[0][i]+P[1][i]<=1 for i in range(len(W)))
    print(n, len(W), 'maxerr deg<=n %.2e'%float(mx), arg, 'deg n+1 %.2e'%float(mx2), 'inside',inside, 'minw %.2e'%float(min(W)))
print('tri time', time.time()-t)
for n in range(1,31):
    x,w=g1.rule(n); X=[F(float(v)) for v in x]; W=[F(float(v)) for v in w]
    mx=max(abs(sum(W[i]*X[i]**k for i in range(n))-F(1,k+1)) for k in range(2*n))
    mx2=abs(sum(W[i]*X[i]**(2*n) for i in range(n))-F(1,2*n+1))
    print('g',n,'%.2e'%float(mx),'next %.2e'%float(mx2))
