from symlib import *
import sparseshim, time
sparseshim.install()
import bempp_cl.api as b
import bempp_cl.core.numba_kernels as nk, bempp_cl.core.numba_assemblers as na, bempp_cl.core.dense_assembler as da, bempp_cl.core.singular_assembler as sga, bempp_cl.core.sparse_assembler as spa
import bempp_cl.api.space.space as sp, bempp_cl.api.space.scalar_spaces as ss, bempp_cl.api.assembly.discrete_boundary_operator as dbo
install(nk, na, da, sga, spa, sp, ss)
v = np.array([[0,1,0,0],[0,0,1,0],[0,0,0,1.]]); e = np.array([[0,0,0,1],[2,1,3,2],[1,3,2,3]])
g = b.Grid(v, e); NE=4
p1 = b.function_space(g, "P", 1); dp0 = b.function_space(g,"DP",0)
gd = g._grid_data_double
gd.vertices = sym('v',(3,4)); gd.normals = sym('n',(NE,3)); gd.integration_elements = sym('ie',(NE,)); gd.jacobians = sym('J',(NE,3,2)); gd.jac_inv_trans = sym('Jit',(NE,3,2))
import bempp_cl.api.integration.triangle_gauss as tg
_r = tg.rule; tg.rule = lambda o: tuple(lift_arr(x) for x in _r(o))
b.GLOBAL_PARAMETERS.quadrature.regular=2
t=time.time()
M = b.operators.boundary.sparse.identity(p1,p1,p1).weak_form()
print(type(M), type(M.to_sparse()))
Md = M.to_sparse().toarray()
print('identity symbolic', time.time()-t, Md.shape, Md[0,1])
