from symlib import *
import time
import bempp_cl.api as b
import bempp_cl.api.grid.grid as gg, bempp_cl.api.space.maxwell_spaces as ms, bempp_cl.api.space.shapesets as sh, bempp_cl.api.space.space as sp
install(gg, ms, sh, sp)
v = np.array([[0,1,0,1.2],[0,0,1,1.1],[0,0,0,0.3]]); e = np.array([[0,1],[1,3],[2,2]])   # two triangles sharing edge (1,2)
g = b.Grid(v, e)
rwg = b.function_space(g, "RWG", 0, include_boundary_dofs=False)
print('dofs', rwg.global_dof_count, rwg.local2global, rwg.local_multipliers)
# make geometry symbolic by re-running the real geometry code on symbolic vertices
L,a_,b_,c_,d_,e_ = [SR(z3.Real(n)) for n in 'L a b c d e'.split()]
Z=SR.lift(0)
VV=np.empty((3,4),dtype=object)
VV[:,1]=[Z,Z,Z]; VV[:,2]=[L,Z,Z]; VV[:,0]=[a_,b_,Z]; VV[:,3]=[c_,d_,e_]
g._vertices = VV.view(SA)
g._compute_geometric_quantities()
gd = g._grid_data_double
gd.vertices = g._vertices; gd.normals = g._normals; gd.integration_elements = g._integration_elements; gd.jacobians = g._jacobians; gd.jac_inv_trans = g._jacobian_inverse_transposed; gd.volumes=g._volumes
print(type(g._normals[0,0]), len(ABS.cons))
s_ = SR(z3.Real('s'))
# shared edge vertices 1 and 2: in elem0 local (1,2); elem1 = [1,3,2]: local 0 and 2
# point on shared edge: P = V1 + s (V2-V1). local coords elem0: (1-s, s) ; elem1 (verts 1,3,2): x along 3, y along 2 -> (0, s)
p0 = np.array([[1 - s_],[s_]], dtype=object).view(SA); p1 = np.array([[SR.lift(0)],[s_]], dtype=object).view(SA)
t=time.time()
f0 = rwg.evaluate(0, p0); f1 = rwg.evaluate(1, p1)
print('eval', time.time()-t, f0.shape)
dof_local0 = [(i) for i in range(3) if rwg.local_multipliers[0,i]!=0][0]; dof_local1=[(i) for i in range(3) if rwg.local_multipliers[1,i]!=0][0]
V = g._vertices
tvec = [V[d,2]-V[d,1] for d in range(3)]
def cross(a,b_): return [a[1]*b_[2]-a[2]*b_[1], a[2]*b_[0]-a[0]*b_[2], a[0]*b_[1]-a[1]*b_[0]]
nu0 = cross(tvec, list(g._normals[0])); nu1 = cross(tvec, list(g._normals[1]))   # conormals (unnormalised, both scaled by |t|)
flux0 = sum(f0[d,dof_local0,0]*nu0[d] for d in range(3)); flux1 = sum(f1[d,dof_local1,0]*nu1[d] for d in range(3))
# continuity of normal component: outward conormal of elem0 is t x n0 (points out of elem0?) and for elem1 orientation reversed: flux0 == flux1 expected (both conormals use the same t)
sol = z3.Solver(); sol.set('timeout', 60000); sol.add(ABS.cons)
# non-degeneracy
for (arg,r) in ABS.apps.get('sqrt',[]): sol.add(arg > 0)
sol.add(L.t>0, b_.t!=0)
sol.add(T(flux0) != T(flux1))
open('g2.smt2','w').write('(set-logic QF_NRA)\n'+sol.to_smt2())
t=time.time(); print('z3', sol.check(), time.time()-t)
sol2 = z3.Solver(); sol2.set('timeout', 60000); sol2.add(ABS.cons)
for (arg,r) in ABS.apps.get('sqrt',[]): sol2.add(arg > 0)
sol2.add(L.t>0, b_.t!=0)
t=time.time(); print('reach (assumptions only)', sol2.check(), time.time()-t)
sol2.add(T(flux0) != -T(flux1))
t=time.time(); print('wrong-sign twin', sol2.check(), time.time()-t)
m = sol2.model(); print({str(d): m[d] for d in m.decls() if str(d) in 'L a b c d e s'.split()})
