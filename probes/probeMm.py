from symlib import *
import llir, time, re
fns = llir.parse('ks.ll')
print(len(fns), 'functions')
from bempp_cl.core import numba_kernels as nk
import bempp_cl.api.fmm.helpers as fh
pairs = {'laplace_single_layer':'modified_helmholtz_single_layer_regular','laplace_double_layer':'laplace_double_layer_regular','laplace_adjoint_double_layer':'laplace_adjoint_double_layer_regular',
 'helmholtz_single_layer':'helmholtz_single_layer_regular','helmholtz_double_layer':'helmholtz_adjoint_double_layer_regular','helmholtz_adjoint_double_layer':'helmholtz_adjoint_double_layer_regular',
 'helmholtz_single_layer_far_field':'helmholtz_far_field_single_layer','helmholtz_double_layer_far_field':'helmholtz_far_field_double_layer',
 'modified_helmholtz_real_single_layer':'modified_helmholtz_single_layer_regular','modified_helmholtz_real_double_layer':'modified_helmholtz_double_layer_regular','modified_helmholtz_real_adjoint_double_layer':'modified_helmholtz_adjoint_double_layer_regular'}
def R(n): return z3.Real(n)
tot=0; t0=time.time()
for cl, nbname in pairs.items():
  for width in (1,4):
    ABS.reset()
    suffix = 'novec' if width==1 else f'vec{width}'
    fn = fns[f'{cl}_{suffix}']
    x=[R(f'x{i}') for i in range(3)]; nx=[R(f'nx{i}') for i in range(3)]
    ys=[[R(f'y{l}_{i}') for i in range(3)] for l in range(width)]; nys=[[R(f'ny{l}_{i}') for i in range(3)] for l in range(width)]
    kp=[R('k0'),R('k1')]
    complex_out = cl.startswith('helmholtz')
    if width==1:
        out = llir.Mem(2)
        args=[x, ys[0], nx, nys[0], llir.Mem(2,kp), out]
    else:
        out = llir.Mem(2*width)
        Y=llir.Mem(0,[ys[l][i] for i in range(3) for l in range(width)]); NY=llir.Mem(0,[nys[l][i] for i in range(3) for l in range(width)])
        args=[x, Y, nx, NY, llir.Mem(2,kp), out]
    paths = llir.run(fn, args)
    # numba side (regular kernel), symbolic
    def S(a): 
        o=np.empty(np.shape(a),dtype=object)
        for idx in np.ndindex(*o.shape): o[idx]=SR(np.asarray(a,dtype=object)[idx])
        return o.view(SA)
    tp=S(x); yp=S(np.array(ys,dtype=object).T); tn=S(nx); yn=S(np.array(nys,dtype=object).T); kk=S(kp)
    for pc, mems in paths:
        outc = mems[fn.params[5][1]].cells
        # run numba kernel under same path: decide branch k1 != 0 consistently
        import symlib
        branch = None
        for c in pc:
            branch = not z3.is_not(c)
        class SBq:
            pass
        # simple: monkeypatch SR.__ne__ to return python bool according to branch
        SR.__ne__ = lambda s,o, b=branch: b
        res = getattr(nk, nbname)(tp, yp, tn, yn, kk)
        for l in range(width):
            r = res[l]
            if complex_out:
                exp_re, exp_im = r.re.t, r.im.t
                got_re, got_im = (outc[0], outc[1]) if width==1 else (outc[l], outc[width+l])
                goal = z3.Or(got_re != exp_re, got_im != exp_im)
            else:
                goal = outc[l] != r.t
            s=z3.Solver(); s.set('timeout',60000); s.add(pc); s.add(ABS.cons)
            # ackermann
            for op,lst in ABS.apps.items():
                for i in range(len(lst)):
                    for j in range(i+1,len(lst)):
                        s.add(z3.Implies(lst[i][0]==lst[j][0], lst[i][1]==lst[j][1]))
            for (a_,r_) in ABS.apps.get('sqrt',[]): s.add(a_>0)
            s.add(goal)
            t=time.time(); v=s.check(); tot+=1
            print(f'{cl}_{suffix} lane{l} path{len(pc)}:{branch}', v, round(time.time()-t,3))
print('total', tot, time.time()-t0)
