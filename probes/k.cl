#define PRECISION 1
#define VEC_LENGTH 4
#include "kernels.h"
#include "p1_discontinuous_shapeset.h"
#include "rwg0_shapeset.h"
