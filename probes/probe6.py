import os, time
os.environ['NUMBA_DISABLE_JIT']='1'
import numpy as np
t=time.time()
import bempp_cl.api as b
print('import', time.time()-t)
v = np.array([[0,1,0,0],[0,0,1,0],[0,0,0,1.]]); e = np.array([[0,0,0,1],[2,1,3,2],[1,3,2,3]])  # tetrahedron
t=time.time(); g = b.Grid(v, e); print('grid', time.time()-t, g.number_of_edges, g.edge_adjacency.shape, g.vertex_adjacency.shape)
p1 = b.function_space(g, "P", 1); p0 = b.function_space(g, "DP", 0); rwg = b.function_space(g,"RWG",0)
print(type(g.data()), p1.global_dof_count, rwg.global_dof_count)
b.GLOBAL_PARAMETERS.quadrature.regular=2; b.GLOBAL_PARAMETERS.quadrature.singular=2
t=time.time(); A = b.operators.boundary.laplace.single_layer(p1,p1,p1).weak_form().to_dense(); print('slp', time.time()-t, A[0,:2])
t=time.time(); W = b.operators.boundary.laplace.hypersingular(p1,p1,p1).weak_form().to_dense(); print('hyp', time.time()-t, W.sum(axis=1))
t=time.time(); E = b.operators.boundary.maxwell.electric_field(rwg,rwg,rwg,1.5).weak_form().to_dense(); print('efie', time.time()-t, E[0,:2])
t=time.time(); M = b.operators.boundary.sparse.identity(p1,p1,p1).weak_form().to_dense(); print('id', time.time()-t, M.sum())
