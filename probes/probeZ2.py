import numpy as np
import bempp_cl.api as b
v = np.array([[0,1,0,0.25],[0,0,1,0.5],[0,0,0,1.]]); e = np.array([[0,0,0,1],[2,1,3,2],[1,3,2,3]])
g = b.Grid(v, e)
for kind,deg in [("P",1),("DP",0),("RWG",0),("SNC",0)]:
    sp=b.function_space(g,kind,deg); bs=sp.barycentric_representation(); bg=bs.grid
    rng=np.random.RandomState(0); c=rng.rand(sp.global_dof_count)
    f=b.GridFunction(sp,coefficients=c); fb=b.GridFunction(bs,coefficients=c)
    worst=0; where=None; badlist=[]
    for el in range(g.number_of_elements):
        for j in range(6):
            be=6*el+j
            pt=np.array([[0.2],[0.3]])
            X=bg.vertices[:,bg.elements[0,be]] + (bg.vertices[:,bg.elements[1,be]]-bg.vertices[:,bg.elements[0,be]])*0.2 + (bg.vertices[:,bg.elements[2,be]]-bg.vertices[:,bg.elements[0,be]])*0.3
            V0=g.vertices[:,g.elements[0,el]]; J=np.c_[g.vertices[:,g.elements[1,el]]-V0, g.vertices[:,g.elements[2,el]]-V0]
            lam=np.linalg.lstsq(J, X-V0, rcond=None)[0]
            a=f.evaluate(el, lam.reshape(2,1)); bb=fb.evaluate(be, pt)
            d=np.abs(a-bb).max()
            if d>1e-12: badlist.append((el,j))
            if d>worst: worst=d; where=(el,j,a.ravel(),bb.ravel())
    print(kind,deg,'max diff',worst, where if worst>1e-12 else '', 'bad sub-triangles', badlist)
