# C16(i): two symbolic prange iterations of the real regular assembler; write-set disjointness
import os, time
os.environ['NUMBA_DISABLE_JIT']='1'
import numpy as np, z3
import bempp_cl.core.numba_kernels as nk
import numba

I=z3.IntSort()
class SI:
    def __init__(s,t): s.t=t
    def __index__(s): raise TypeError('symbolic index concretised')
def L(o): return o.t if isinstance(o,SI) else z3.IntVal(int(o))
class Opaque:
    """symbolic float value we never inspect"""
    def _o(s,*a): return Opaque()
    __add__=__radd__=__sub__=__rsub__=__mul__=__rmul__=__truediv__=__rtruediv__=__neg__=_o
class FunArray:
    """read-only array modelled as UF of its leading (symbolic) index; trailing dims concrete"""
    def __init__(s,name,trail=(),kind='real',dtype=None):
        s.name=name; s.trail=trail; s.kind=kind; s.dtype=dtype or np.dtype(float)
        s.f=z3.Function(name,*([I]*(1+len(trail))),I) if kind=='int' else None
    def __getitem__(s,idx):
        if not isinstance(idx,tuple): idx=(idx,)
        lead=idx[0]; rest=idx[1:]
        if s.kind=='int':
            if len(rest)==len(s.trail): return SI(s.f(L(lead),*[L(r) for r in rest]))
            assert len(rest)==0
            out=np.empty(s.trail,dtype=object)
            for k in np.ndindex(*s.trail): out[k]=SI(s.f(L(lead),*[z3.IntVal(i) for i in k]))
            return out
        shape=s.trail[len(rest):]
        if shape==(): return Opaque()
        out=np.empty(shape,dtype=object)
        for k in np.ndindex(*shape): out[k]=Opaque()
        return out
    def __mul__(s,o): return s
class ElemArr(FunArray):
    """elements[(k, e)] with FIRST index concrete local vertex and second symbolic element"""
    def __getitem__(s,idx):
        k,e=idx; return SI(s.f(L(e),L(k)))
ACCESS=[]; CUR=[None]
class Rec:
    def __init__(s,name,dtype=float): s.name=name; s.dtype=np.dtype(dtype)
    def __getitem__(s,idx): ACCESS.append((CUR[0],'r',s.name,idx)); return Opaque()
    def __setitem__(s,idx,v): ACCESS.append((CUR[0],'w',s.name,idx))
class GD: pass
def mk_gd(tag):
    g=GD(); g.elements=ElemArr(tag+'elements',(3,),'int'); g.integration_elements=FunArray(tag+'ie'); g.normals=FunArray(tag+'n',(3,)); g.jacobians=FunArray(tag+'J',(3,2)); g.vertices=None
    g.local2global=lambda e,p: np.array([[Opaque() for _ in range(p.shape[1])] for _ in range(3)],dtype=object)
    return g
# prange tagging
class PR:
    def __call__(s,n):
        for i in range(n):
            CUR[0]=i; yield i
        CUR[0]=None
nk._numba=type('NB',(),{'prange':PR(), '__getattr__':lambda s,n:getattr(numba,n)})()
# helpers touching geometry -> opaque
nk.get_normals=lambda gd,n,els,mult: np.array([[Opaque()]*(n*len(els))]*3,dtype=object)
nk.get_global_points=lambda gd,els,pts: np.array([[Opaque()]*(pts.shape[1]*len(els))]*3,dtype=object)
BR=[]
def elements_adjacent(elements,i1,i2): return False
nk.elements_adjacent=elements_adjacent
E0,E1,F0=z3.Ints('E0 E1 F0')
test_elements=[SI(E0),SI(E1)]; trial_elements=[SI(F0)]
l2g_t=FunArray('l2g_t',(3,),'int'); l2g_s=FunArray('l2g_s',(3,),'int')
mult=FunArray('mult',(3,))
Q=2
qp=np.array([[Opaque()]*Q]*2,dtype=object); qw=np.array([Opaque()]*Q,dtype=object)
kern=lambda tp,yp,tn,yn,par: np.array([Opaque()]*yp.shape[1],dtype=object)
shp=lambda p: np.array([[[Opaque()]*p.shape[1]]*3],dtype=object)
result=Rec('result')
import builtins
# numpy allocation of float arrays holding Opaque -> object
_z,_e=np.zeros,np.empty
class NPS:
    def __getattr__(s,n): return getattr(np,n)
    def zeros(s,shape,dtype=None): return _z(shape,dtype=object) if dtype is not np.bool_ else _z(shape,dtype=bool)
    def empty(s,shape,dtype=None): return _z(shape,dtype=object)
nk._np=NPS()
t=time.time()
nk.default_scalar_regular_kernel(mk_gd('t'),mk_gd('s'),3,3,test_elements,trial_elements,mult,mult,l2g_t,l2g_s,FunArray('nm'),FunArray('nm2'),qp,qw,kern,None,True,shp,shp,result)
print('accesses', len(ACCESS), round(time.time()-t,2))
W0=[a for a in ACCESS if a[0]==0]; W1=[a for a in ACCESS if a[0]==1]
def same(i,j): return z3.And([L(a)==L(c) for a,c in zip(i,j)])
conf=[same(a[3],c[3]) for a in W0 for c in W1 if 'w' in (a[1],c[1])]
colouring=[l2g_t.f(E0,z3.IntVal(i))!=l2g_t.f(E1,z3.IntVal(j)) for i in range(3) for j in range(3)]
s=z3.Solver(); s.add(E0!=E1); s.add(colouring); s.add(z3.Or(conf)); t=time.time(); print('race with colouring invariant:', s.check(), round(time.time()-t,3), len(conf),'pairs')
s=z3.Solver(); s.add(E0!=E1); s.add(z3.Or(conf)); print('twin without invariant:', s.check())
if s.check()==z3.sat:
    m=s.model(); print('  witness E0,E1=',m[E0],m[E1])
