import numpy as np, z3, time, types
from bempp_cl.core import numba_kernels as nk

class SR:
    __array_priority__ = 1000
    def __init__(s, t): s.t = t if isinstance(t, z3.ExprRef) else z3.RealVal(t)
    @staticmethod
    def lift(o):
        if isinstance(o, SR): return o
        if isinstance(o, (int, np.integer)): return SR(z3.RealVal(int(o)))
        if isinstance(o, (float, np.floating)):
            from fractions import Fraction
            f = Fraction(float(o)); return SR(z3.RealVal(str(f)))
        raise TypeError(type(o))
    def __add__(s,o): return SR(s.t + SR.lift(o).t)
    __radd__ = __add__
    def __sub__(s,o): return SR(s.t - SR.lift(o).t)
    def __rsub__(s,o): return SR(SR.lift(o).t - s.t)
    def __mul__(s,o):
        if isinstance(o, complex): return NotImplemented
        return SR(s.t * SR.lift(o).t)
    __rmul__ = __mul__
    def __truediv__(s,o): return SR(s.t / SR.lift(o).t)
    def __rtruediv__(s,o): return SR(SR.lift(o).t / s.t)
    def __neg__(s): return SR(-s.t)
    def __pow__(s,n):
        assert isinstance(n,int)
        r = s
        for _ in range(n-1): r = r*s
        return r
    def sqrt(s):
        f = z3.Function('sqrt', z3.RealSort(), z3.RealSort()); return SR(f(s.t))
    def cos(s):
        f = z3.Function('cos', z3.RealSort(), z3.RealSort()); return SR(f(s.t))
    def sin(s):
        f = z3.Function('sin', z3.RealSort(), z3.RealSort()); return SR(f(s.t))
    def exp(s):
        f = z3.Function('exp', z3.RealSort(), z3.RealSort()); return SR(f(s.t))
    def __repr__(s): return f"SR({s.t})"

def sym(name, shape):
    a = np.empty(shape, dtype=object)
    for idx in np.ndindex(*shape):
        a[idx] = SR(z3.Real(name + "_" + "_".join(map(str, idx))))
    return a

f = nk.laplace_double_layer_regular.py_func
tp = sym('x', (3,)); yp = sym('y', (3,2)); tn = sym('n', (3,)); yn = sym('m', (3,2))
t=time.time()
out = f(tp, yp, tn, yn, np.empty(0, dtype=object))
print(out[0], time.time()-t)
# probes on numpy object support
A = sym('A',(3,2)); B = sym('B',(2,3))
print((A@B).shape, np.cross(tp, tn).shape)
print(np.linalg.norm(tp))
print(np.expand_dims(tp,1).shape, A.dot(B[:, :1]).shape)
