import numpy as np, itertools
import bempp_cl.api as b
exec(open('probeN.py').read().split("bad=0; n=0")[0])   # meshes()
def oracle(g, kind, deg, supp, ib, tr):
    E = g.elements; NE=g.number_of_elements
    S = set(np.flatnonzero(supp))
    if kind=="DP": return len(S)*(1 if deg==0 else 3)
    if kind in ("P","DUAL") and (kind=="P" or deg==0):
        cnt=0
        for v in range(g.number_of_vertices):
            nb=[e for e in range(NE) if v in E[:,e]]
            if not any(e in S for e in nb): continue
            interior = all(e in S for e in nb) and not g.vertex_on_boundary[v]
            if ib or interior: cnt+=1
        return cnt
    if kind=="DUAL" and deg==1: return None
    if kind in ("RWG","SNC","BC","RBC"):
        cnt=0
        for ed in range(g.number_of_edges):
            nb=g.edge_neighbors[ed]; ns=sum(1 for e in nb if e in S)
            if len(nb)==2 and ns==2: cnt+=1
            elif ns==1 and ib: cnt+=1
        return cnt
bad=0;n=0
for name,v,e,dom in meshes():
    g = b.Grid(v,e,np.array(dom,dtype='uint32'))
    for kind,deg in [("DP",0),("DP",1),("P",1),("RWG",0),("SNC",0),("DUAL",0),("DUAL",1),("BC",0),("RBC",0)]:
        for segs in (None,[0],[1],[0,1]):
            for ib in (False,True):
                for tr in (False,True):
                    kw={}
                    if segs is not None: kw['segments']=segs
                    if kind in ("P","RWG","SNC","DUAL","BC","RBC"): kw.update(include_boundary_dofs=ib, truncate_at_segment_edge=tr)
                    elif ib or tr: continue
                    try: s = b.function_space(g, kind, deg, **kw)
                    except Exception as ex: continue
                    supp = np.isin(g.domain_indices, segs) if segs is not None else np.ones(g.number_of_elements,bool)
                    o = oracle(g, kind, deg, supp, ib, tr); n+=1
                    if o is not None and o != s.global_dof_count:
                        bad+=1; print('MISMATCH', name, kind, deg, kw, 'oracle', o, 'got', s.global_dof_count)
print('checked', n, 'bad', bad)
