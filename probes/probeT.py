# C08(ii): exact PDE residual of real kernel code via second-order jets w.r.t. the evaluation point
from symlib import *
import time
from bempp_cl.core import numba_kernels as nk
class J:
    """jet: value v, gradient g[3], diagonal hessian h[3] (all z3 terms) wrt test point"""
    def __init__(s, v, g=None, h=None):
        s.v=v; s.g=g or [z3.RealVal(0)]*3; s.h=h or [z3.RealVal(0)]*3
    @staticmethod
    def lift(o):
        if isinstance(o,J): return o
        if isinstance(o,SR): return J(o.t)
        return J(SR.lift(o).t)
    def __add__(s,o):
        if isinstance(o,np.ndarray): return NotImplemented
        if isinstance(o,(complex,JC)): return JC.lift(s)+o
        o=J.lift(o); return J(s.v+o.v,[a+b for a,b in zip(s.g,o.g)],[a+b for a,b in zip(s.h,o.h)])
    __radd__=__add__
    def __neg__(s): return J(-s.v,[-a for a in s.g],[-a for a in s.h])
    def __sub__(s,o):
        if isinstance(o,np.ndarray): return NotImplemented
        return s+(-J.lift(o))
    def __rsub__(s,o): return J.lift(o)+(-s)
    def __mul__(s,o):
        if isinstance(o,np.ndarray): return NotImplemented
        if isinstance(o,(complex,JC)): return JC.lift(s)*o
        o=J.lift(o)
        return J(s.v*o.v,[s.g[i]*o.v+s.v*o.g[i] for i in range(3)],[s.h[i]*o.v+2*s.g[i]*o.g[i]+s.v*o.h[i] for i in range(3)])
    __rmul__=__mul__
    def chain(s, f, f1, f2):   # f(u), f'(u), f''(u) as terms
        return J(f,[f1*s.g[i] for i in range(3)],[f2*s.g[i]*s.g[i]+f1*s.h[i] for i in range(3)])
    def inv(s):
        r=ABS.app('inv',s.v); return s.chain(r,-r*r,2*r*r*r)
    def __truediv__(s,o):
        if isinstance(o,np.ndarray): return NotImplemented
        return s*J.lift(o).inv()
    def __rtruediv__(s,o): return J.lift(o)*s.inv()
    def __pow__(s,n):
        r=s
        for _ in range(n-1): r=r*s
        return r
    def sqrt(s):
        r=ABS.app('sqrt',s.v); ir=ABS.app('inv',r); return s.chain(r, ir/2, -ir*ir*ir/4)
    def cos(s):
        c=ABS.app('cos',s.v); sn=ABS.app('sin',s.v); return s.chain(c,-sn,-c)
    def sin(s):
        c=ABS.app('cos',s.v); sn=ABS.app('sin',s.v); return s.chain(sn,c,-sn)
    def exp(s):
        e=ABS.app('exp',s.v); return s.chain(e,e,e)
    def __ne__(s,o): return BR[0]
class JC:
    def __init__(s,re,im): s.re,s.im=J.lift(re),J.lift(im)
    @staticmethod
    def lift(o):
        if isinstance(o,JC): return o
        if isinstance(o,complex): return JC(J(SR.lift(o.real).t),J(SR.lift(o.imag).t))
        return JC(o,0)
    def __add__(s,o):
        if isinstance(o,np.ndarray): return NotImplemented
        o=JC.lift(o); return JC(s.re+o.re,s.im+o.im)
    __radd__=__add__
    def __mul__(s,o):
        if isinstance(o,np.ndarray): return NotImplemented
        o=JC.lift(o); return JC(s.re*o.re-s.im*o.im, s.re*o.im+s.im*o.re)
    __rmul__=__mul__
BR=[True]
def lap(j): return j.h[0]+j.h[1]+j.h[2]
x=[z3.Real(f'x{i}') for i in range(3)]
X=np.array([J(x[i],[z3.RealVal(1 if k==i else 0) for k in range(3)]) for i in range(3)],dtype=object)
Y=np.array([[J(z3.Real(f'y{i}'))] for i in range(3)],dtype=object)
N=np.array([[J(z3.Real(f'n{i}'))] for i in range(3)],dtype=object)
kr,ki=z3.Reals('kr ki'); w=z3.Real('w')
def check(name, fn, params, resid):
    for br in ((True,False) if 'helm' in name and 'modified' not in name else (None,)):
        ABS.reset(); BR[0]=br
        out=fn(X,Y,None,N,params)[0]
        s=z3.Solver(); s.set('timeout',120000); s.add(ABS.cons)
        for op,lst in ABS.apps.items():
            for i in range(len(lst)):
                for j in range(i+1,len(lst)): s.add(z3.Implies(lst[i][0]==lst[j][0], lst[i][1]==lst[j][1]))
        for (a,c) in ABS.apps.get('cos',[]):
            for (b_,sn) in ABS.apps.get('sin',[]):
                if a.eq(b_): s.add(c*c+sn*sn==1)
        for (a,r) in ABS.apps.get('sqrt',[]): s.add(a>0)
        if br is True: s.add(ki!=0)
        if br is False: s.add(ki==0)
        s.add(resid(out))
        t=time.time(); print(name, br, s.check(), round(time.time()-t,2), {k:len(v) for k,v in ABS.apps.items()})
K=np.array([J(kr),J(ki)],dtype=object); Wp=np.array([J(w)],dtype=object)
check('laplace_sl', nk.laplace_single_layer_regular, None, lambda o: lap(o)!=0)
check('laplace_dl', nk.laplace_double_layer_regular, None, lambda o: lap(o)!=0)
check('modified_helm_sl', nk.modified_helmholtz_single_layer_regular, Wp, lambda o: lap(o)-w*w*o.v!=0)
check('modified_helm_dl', nk.modified_helmholtz_double_layer_regular, Wp, lambda o: lap(o)-w*w*o.v!=0)
# helmholtz: (lap + k^2) u = 0, k^2 = (kr^2-ki^2) + 2i kr ki
def helm(o):
    a=kr*kr-ki*ki; b_=2*kr*ki
    return z3.Or(lap(o.re)+a*o.re.v-b_*o.im.v!=0, lap(o.im)+a*o.im.v+b_*o.re.v!=0)
check('helmholtz_sl', nk.helmholtz_single_layer_regular, K, helm)
check('helmholtz_dl', nk.helmholtz_double_layer_regular, K, helm)
print('--- vacuity/sensitivity twins')
check('laplace_sl_twin(expect sat)', nk.laplace_single_layer_regular, None, lambda o: lap(o)+o.v!=0)
check('modified_helm_sl_twin(expect sat)', nk.modified_helmholtz_single_layer_regular, Wp, lambda o: lap(o)+w*w*o.v!=0)
def helm_wrong(o):
    a=kr*kr-ki*ki; b_=2*kr*ki
    return z3.Or(lap(o.re)+a*o.re.v+b_*o.im.v!=0, lap(o.im)+a*o.im.v+b_*o.re.v!=0)
check('helmholtz_sl_twin(expect sat)', nk.helmholtz_single_layer_regular, K, helm_wrong)
