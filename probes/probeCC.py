import os
os.environ['NUMBA_DISABLE_JIT']='1'
import numpy as np
import bempp_cl.api as b
import bempp_cl.core.numba_kernels as nk
nk.laplace_single_layer_regular=lambda tp,yp,tn,yn,par: np.ones(yp.shape[1])
nk.laplace_single_layer_singular=lambda tp,yp,tn,yn,par: np.ones(yp.shape[1])
v = np.array([[1,-1.3,0,0,0.2,0],[0,0,1.1,-1,0,0],[0,0,0.1,0,1.4,-0.8]])
e = np.array([[0,2,4],[2,1,4],[1,3,4],[3,0,4],[2,0,5],[1,2,5],[3,1,5],[0,3,5]]).T
g = b.Grid(v, e)
for ro,so in [(1,2),(2,3),(2,2),(4,4),(2,5)]:
    b.GLOBAL_PARAMETERS.quadrature.regular=ro; b.GLOBAL_PARAMETERS.quadrature.singular=so
    out=[]
    for kind,deg in [("DP",0),("P",1),("DP",1)]:
        sp=b.function_space(g,kind,deg)
        A=b.operators.boundary.laplace.single_layer(sp,sp,sp).weak_form().to_dense()
        m=b.GridFunction(sp,coefficients=np.ones(sp.global_dof_count)).projections(sp) if False else None
        # m_i = integral of basis fn i
        M=np.zeros(sp.global_dof_count)
        for el in range(g.number_of_elements):
            for i in range(sp.number_of_shape_functions):
                M[sp.local2global[el,i]] += sp.local_multipliers[el,i]*g.integration_elements[el]*(0.5 if deg==0 else 1/6)
        out.append(np.abs(A-np.outer(M,M)).max())
    print('orders reg',ro,'sing',so,'max |V[1]-m m^T| (DP0,P1,DP1):', ['%.1e'%x for x in out])
