# C03(a): kernel invariance under rotation (quaternion), translation, scaling — real numba kernel code
from symlib import *
import time
from bempp_cl.core import numba_kernels as nk
def mkarr(lst, shape): 
    a=np.empty(shape,dtype=object)
    for idx,v in zip(np.ndindex(*shape), lst): a[idx]=SR(v)
    return a.view(SA)
x=[z3.Real(f'x{i}') for i in range(3)]; y=[z3.Real(f'y{i}') for i in range(3)]; n=[z3.Real(f'n{i}') for i in range(3)]; m=[z3.Real(f'm{i}') for i in range(3)]
t=[z3.Real(f't{i}') for i in range(3)]; qw,qx,qy,qz=z3.Reals('qw qx qy qz'); sc=z3.Real('sc'); kr,ki=z3.Reals('kr ki')
M=[[qw*qw+qx*qx-qy*qy-qz*qz, 2*(qx*qy-qw*qz), 2*(qx*qz+qw*qy)],[2*(qx*qy+qw*qz), qw*qw-qx*qx+qy*qy-qz*qz, 2*(qy*qz-qw*qx)],[2*(qx*qz-qw*qy), 2*(qy*qz+qw*qx), qw*qw-qx*qx-qy*qy+qz*qz]]
def rot(v): return [sum(M[i][j]*v[j] for j in range(3)) for i in range(3)]
BR=[None]
SR.__ne__=lambda s,o: BR[0]
def run(fn, X,Y,N,Mn,K):
    return fn(mkarr(X,(3,)), mkarr(Y,(3,1)), mkarr(N,(3,)), mkarr(Mn,(3,1)), mkarr(K,(len(K),)) if K else None)[0]
def solve(name, a, b_, extra=[], cplx=False, tmo=60000):
    s=z3.Solver(); s.set('timeout',tmo); s.add(ABS.cons); s.add(extra)
    for op,lst in ABS.apps.items():
        for i in range(len(lst)):
            for j in range(i+1,len(lst)): s.add(z3.Implies(lst[i][0]==lst[j][0], lst[i][1]==lst[j][1]))
    for (arg,r) in ABS.apps.get('sqrt',[]): s.add(arg>0)
    goal = z3.Or(a.re.t!=b_.re.t, a.im.t!=b_.im.t) if cplx else a.t!=b_.t
    s.add(goal); t0=time.time(); r=s.check(); print(f'{name:45s}', r, round(time.time()-t0,2), {k:len(v) for k,v in ABS.apps.items()})
for kname,K,cplx in [('laplace_single_layer_regular',[],False),('laplace_double_layer_regular',[],False),('laplace_adjoint_double_layer_regular',[],False),('modified_helmholtz_double_layer_regular',[kr],False),('helmholtz_single_layer_regular',[kr,ki],True),('helmholtz_double_layer_regular',[kr,ki],True)]:
    fn=getattr(nk,kname)
    for br in ((True,False) if cplx else (None,)):
        BR[0]=br; brc=([ki!=0] if br else [ki==0]) if cplx else []
        # rotation+translation with unit quaternion
        ABS.reset()
        a=run(fn,x,y,n,m,K); b_=run(fn,[r_+tt for r_,tt in zip(rot(x),t)],[r_+tt for r_,tt in zip(rot(y),t)],rot(n),rot(m),K)
        solve(kname+f' rigid br={br}', a,b_, [qw*qw+qx*qx+qy*qy+qz*qz==1]+brc, cplx)
        # scaling: K(sx,sy;k/s) = s^-h K
        ABS.reset()
        a=run(fn,x,y,n,m,K)
        Ks=[SR(k_)/SR(sc) for k_ in K]; Ks=[k_.t for k_ in Ks]
        b_=run(fn,[sc*v for v in x],[sc*v for v in y],n,m,Ks)
        h=1 if 'single' in kname else 2
        scl=SR(sc) if h==1 else SR(sc)*SR(sc)
        lhs = (b_*scl) if not cplx else SC(b_.re*scl, b_.im*scl)
        solve(kname+f' scaling br={br}', a, lhs, [sc>0]+brc, cplx)
