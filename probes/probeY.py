# C19: export -> (stub channel) -> import with symbolic domain indices
import os, time
os.environ['NUMBA_DISABLE_JIT']='1'
import numpy as np, z3, types
exec(open('probeP.py').read().split("# symbolic-index sparse model")[0])   # Eng, SI, SB, explore
class OA(np.ndarray):
    def astype(s,*a,**k): return s
import bempp_cl.api.grid.io as io
CH={}
class Mesh: pass
def write_points_cells(filename, points, cells, point_data=None, cell_data=None, file_format=None, binary=True):
    CH['m']=(points, cells, point_data, cell_data)
def read(filename):
    points, cells, pd, cd = CH['m']; m=Mesh(); m.points=points; m.cells_dict={'triangle':cells[0][1]}
    m.cell_data_dict={k:{'triangle':np.asarray(v)[0]} for k,v in cd.items()}
    return m
io._meshio=types.SimpleNamespace(write_points_cells=write_points_cells, read=read)
REC={}
import bempp_cl.api.grid.grid as gg
class FakeGrid:
    def __init__(s, vertices, elements, domain_indices=None): REC['g']=(vertices,elements,domain_indices)
gg.Grid=FakeGrid
# np.all(domain_indices == 0) on SI array -> shim
class NPS:
    def __getattr__(s,n): return getattr(np,n)
    def all(s,x):
        r=True
        for e in np.asarray(x,dtype=object).ravel():
            if not e: return False
        return True
    def array(s,obj,dtype=None): return np.array(obj,dtype=object).view(OA)
io._np=NPS()
N=2
d=[z3.Int(f'd{i}') for i in range(N)]
class G: pass
g=G(); g.vertices=np.zeros((3,4)); g.elements=np.array([[0,1],[1,3],[2,2]]).view(OA)
dom=np.empty(N,dtype=object)
for i in range(N): dom[i]=SI(d[i])
g.domain_indices=dom.view(OA)
assume=[z3.And(x>=0, x<2**31) for x in d]
def run():
    io.export('x.msh', grid=g)
    io.import_grid('x.msh')
    return REC['g'][2]
t=time.time(); res=explore(run, assume); print(len(res),'paths', round(time.time()-t,2))
for pc,out in res:
    s=z3.Solver(); s.add(assume); s.add(pc)
    s.add(z3.Or([L(out[i])!=d[i] for i in range(N)]))
    r=s.check()
    print('path', [str(c) for c in pc][:4], '->', r, (s.model() if r==z3.sat else ''))
