# minimal probe library (NOT framework): proxies + shim, shared by probes
import os, types
os.environ.setdefault('NUMBA_DISABLE_JIT','1')
import numpy as np, z3
from fractions import Fraction

class Abs:
    def __init__(s): s.reset()
    def reset(s): s.apps = {}; s.cons = []; s.n = 0
    def app(s, op, arg):
        arg = z3.simplify(arg)
        if op == 'inv':
            if z3.is_rational_value(arg) and arg.as_fraction() != 0:
                return z3.RealVal(str(1/arg.as_fraction()))
            if z3.is_mul(arg):
                r = z3.RealVal(1)
                for c in arg.children(): r = r * s.app('inv', c)
                return r
            if z3.is_app(arg) and arg.decl().kind()==z3.Z3_OP_UMINUS:
                return -s.app('inv', arg.arg(0))
            if z3.is_app(arg) and arg.decl().kind()==z3.Z3_OP_POWER and z3.is_rational_value(arg.arg(1)):
                n=arg.arg(1).as_fraction()
                if n.denominator==1 and n>0:
                    r=z3.RealVal(1)
                    for _ in range(int(n)): r=r*s.app('inv', arg.arg(0))
                    return r
            if z3.is_add(arg):
                arg2 = z3.simplify(arg, som=True, mul_to_power=False)
                if z3.is_add(arg2):
                    terms=[]
                    for tm in arg2.children():
                        fac={}
                        for c in (tm.children() if z3.is_mul(tm) else [tm]):
                            if z3.is_rational_value(c): continue
                            k=c.get_id(); fac[k]=(c, fac.get(k,(c,0))[1]+1)
                        terms.append(fac)
                    common=dict(terms[0])
                    for f in terms[1:]:
                        common={k:(e,min(p,f[k][1])) for k,(e,p) in common.items() if k in f}
                    if common:
                        m=z3.RealVal(1)
                        for k,(e,p) in common.items():
                            for _ in range(p): m=m*e
                        # rest = arg2 / m : rebuild summands without common factors
                        rest=z3.RealVal(0)
                        for tm,f in zip(arg2.children(), terms):
                            coeff=z3.RealVal(1); 
                            for c in (tm.children() if z3.is_mul(tm) else [tm]):
                                if z3.is_rational_value(c): coeff=coeff*c
                            t2=coeff
                            for k,(e,p) in f.items():
                                for _ in range(p-common.get(k,(e,0))[1]): t2=t2*e
                            rest=rest+t2
                        return s.app('inv', m) * s.app('inv', z3.simplify(rest))
                    arg = arg2
        for (a, r) in s.apps.setdefault(op, []):
            if a.eq(arg): return r
        s.n += 1
        r = z3.Real(f"{op}!{s.n}")
        s.apps[op].append((arg, r))
        if op == 'sqrt': s.cons += [r >= 0, r*r == arg]
        if op == 'inv': s.cons += [z3.Implies(arg != 0, r*arg == 1)]
        if op == 'exp': s.cons += [r > 0]
        return r
ABS = Abs()

class SR:

    def __init__(s, t): s.t = t
    @staticmethod
    def lift(o):
        if isinstance(o, SR): return o
        if isinstance(o, (bool, np.bool_)): raise TypeError('bool')
        if isinstance(o, (int, np.integer)): return SR(z3.RealVal(int(o)))
        if isinstance(o, (float, np.floating)): return SR(z3.RealVal(str(Fraction(float(o)))))
        if isinstance(o, Fraction): return SR(z3.RealVal(str(o)))
        raise TypeError(type(o))
    def __add__(s,o):
        if isinstance(o, np.ndarray) or not isinstance(o, (SR, SC, int, float, complex, np.number, Fraction)): return NotImplemented
        if isinstance(o, (SC, complex)): return SC.lift(s) + o
        return SR(s.t + SR.lift(o).t)
    __radd__ = __add__
    def __sub__(s,o):
        if isinstance(o, np.ndarray) or not isinstance(o, (SR, SC, int, float, complex, np.number, Fraction)): return NotImplemented
        if isinstance(o, (SC, complex)): return SC.lift(s) - o
        return SR(s.t - SR.lift(o).t)
    def __rsub__(s,o):
        if isinstance(o, np.ndarray) or not isinstance(o, (SR, SC, int, float, complex, np.number, Fraction)): return NotImplemented
        return SR(SR.lift(o).t - s.t)
    def __mul__(s,o):
        if isinstance(o, np.ndarray) or not isinstance(o, (SR, SC, int, float, complex, np.number, Fraction)): return NotImplemented
        if isinstance(o, (SC, complex)): return SC.lift(s) * o
        return SR(s.t * SR.lift(o).t)
    __rmul__ = __mul__
    def __truediv__(s,o):
        if isinstance(o, np.ndarray) or not isinstance(o, (SR, SC, int, float, complex, np.number, Fraction)): return NotImplemented
        if isinstance(o, (SC, complex)): return SC.lift(s)/o
        return SR(s.t * ABS.app('inv', SR.lift(o).t))
    def __rtruediv__(s,o):
        if isinstance(o, np.ndarray) or not isinstance(o, (SR, SC, int, float, complex, np.number, Fraction)): return NotImplemented
        return SR(SR.lift(o).t * ABS.app('inv', s.t))
    def __neg__(s): return SR(-s.t)
    def __pos__(s): return s
    def __abs__(s): return SR(z3.If(s.t >= 0, s.t, -s.t))
    def __pow__(s,n):
        assert isinstance(n,(int,np.integer)) and n>=1
        r = s
        for _ in range(int(n)-1): r = r*s
        return r
    def sqrt(s): return SR(ABS.app('sqrt', s.t))
    def exp(s): return SR(ABS.app('exp', s.t))
    def cos(s): return SR(ABS.app('cos', s.t))
    def sin(s): return SR(ABS.app('sin', s.t))
    def conjugate(s): return s
    conj = conjugate
    @property
    def real(s): return s
    def __repr__(s): return 'SR(%s)' % str(s.t)[:60]

class SC:
    def __init__(s, re, im): s.re, s.im = SR.lift(re), SR.lift(im)
    @staticmethod
    def lift(o):
        if isinstance(o, SC): return o
        if isinstance(o, complex): return SC(o.real, o.imag)
        return SC(SR.lift(o), 0)
    def __add__(s,o):
        if isinstance(o, np.ndarray) or not isinstance(o, (SR, SC, int, float, complex, np.number, Fraction)): return NotImplemented
        o=SC.lift(o); return SC(s.re+o.re, s.im+o.im)
    __radd__=__add__
    def __sub__(s,o):
        if isinstance(o, np.ndarray) or not isinstance(o, (SR, SC, int, float, complex, np.number, Fraction)): return NotImplemented
        o=SC.lift(o); return SC(s.re-o.re, s.im-o.im)
    def __rsub__(s,o): o=SC.lift(o); return SC(o.re-s.re, o.im-s.im)
    def __mul__(s,o):
        if isinstance(o, np.ndarray) or not isinstance(o, (SR, SC, int, float, complex, np.number, Fraction)): return NotImplemented
        o=SC.lift(o); return SC(s.re*o.re - s.im*o.im, s.re*o.im + s.im*o.re)
    __rmul__=__mul__
    def __neg__(s): return SC(-s.re, -s.im)
    def inv(s):
        d = s.re*s.re + s.im*s.im
        return SC(s.re/d, -(s.im/d))
    def __truediv__(s,o):
        if isinstance(o, np.ndarray): return NotImplemented
        return s*SC.lift(o).inv()
    def __rtruediv__(s,o): return SC.lift(o)*s.inv()
    def conjugate(s): return SC(s.re, -s.im)
    @property
    def real(s): return s.re
    @property
    def imag(s): return s.im

class SA(np.ndarray):
    def astype(self, dtype, *a, **k):
        if self.dtype == object: return self
        return np.ndarray.astype(self, dtype, *a, **k)
def sym(name, shape):
    a = np.empty(shape, dtype=object)
    for idx in np.ndindex(*shape): a[idx] = SR(z3.Real(name + "_" + "_".join(map(str, idx))))
    return a.view(SA)
def lift_arr(a):
    a = np.asarray(a); out = np.empty(a.shape, dtype=object)
    for idx in np.ndindex(*a.shape): out[idx] = SR.lift(a[idx])
    return out.view(SA)
def TC(x):
    x=SC.lift(x) if not isinstance(x,SC) else x
    return (x.re.t, x.im.t)
def T(x): return x.t if isinstance(x, SR) else z3.RealVal(str(Fraction(x)) if isinstance(x,float) else x)

class LinalgShim:
    def norm(self, x, axis=None, **k):
        x = np.asarray(x)
        sq = (x*x).sum(axis=axis)
        if isinstance(sq, np.ndarray):
            out = np.empty(sq.shape, dtype=object)
            for idx in np.ndindex(*sq.shape): out[idx] = SR.lift(sq[idx]).sqrt()
            return out.view(SA)
        return SR.lift(sq).sqrt()
    def det(self, m):
        m = np.asarray(m)
        assert m.shape[-2:] == (2,2)
        return (m[...,0,0]*m[...,1,1] - m[...,0,1]*m[...,1,0]).view(SA)
    def inv(self, m):
        m = np.asarray(m); assert m.shape[-2:] == (2,2)
        d = m[...,0,0]*m[...,1,1] - m[...,0,1]*m[...,1,0]
        out = np.empty(m.shape, dtype=object)
        out[...,0,0] = m[...,1,1]/d; out[...,1,1] = m[...,0,0]/d
        out[...,0,1] = -m[...,0,1]/d; out[...,1,0] = -m[...,1,0]/d
        return out.view(SA)
class NPShim(types.ModuleType):
    def __init__(self): super().__init__('npshim'); self.linalg = LinalgShim()
    def __getattr__(self, n): return getattr(np, n)
    def _f(self, dtype): return dtype is not None and dtype is not bool and np.dtype(dtype).kind in 'fc'
    def zeros(self, shape, dtype=None, order='C'):
        return np.zeros(shape, dtype=object).view(SA) if self._f(dtype) else np.zeros(shape, dtype=dtype)
    def empty(self, shape, dtype=None, order='C'):
        return np.zeros(shape, dtype=object).view(SA) if self._f(dtype) else np.empty(shape, dtype=dtype)
    def array(self, obj, dtype=None, **k):
        return np.array(obj, dtype=object).view(SA) if self._f(dtype) else np.array(obj, dtype=dtype, **k)
    def sqrt(self, x):
        if isinstance(x, SR): return x.sqrt()
        x = np.asarray(x)
        if x.dtype == object:
            out = np.empty(x.shape, dtype=object)
            for idx in np.ndindex(*x.shape): out[idx] = SR.lift(x[idx]).sqrt()
            return out.view(SA)
        return np.sqrt(x)
shim = NPShim()
def install(*mods):
    for m in mods: m._np = shim
