import sys, types, numpy as np
import bempp_cl.api as b
def mk(modname, cls):
    m = types.ModuleType(modname)
    m.init_sources=lambda p,c:('s',p); m.init_targets=lambda p:('t',p); setattr(m, cls, lambda *a,**k:'fmm'); m.setup=lambda s,t,f:{'s':s,'t':t}
    m.update_charges=lambda tree,vec:None; m.clear_values=lambda tree:None; m.evaluate=lambda tree,f:None
    return m
ex=types.ModuleType('exafmm'); ex.laplace=mk('exafmm.laplace','LaplaceFmm'); ex.helmholtz=mk('exafmm.helmholtz','HelmholtzFmm'); ex.modified_helmholtz=mk('exafmm.modified_helmholtz','ModifiedHelmholtzFmm')
for n in ('exafmm','exafmm.laplace','exafmm.helmholtz','exafmm.modified_helmholtz'): sys.modules[n]=ex if n=='exafmm' else getattr(ex,n.split('.')[1])
b.GLOBAL_PARAMETERS.fmm.dense_evaluation=True
v = np.array([[1,-1.3,0,0,0.2,0],[0,0,1.1,-1,0,0],[0,0,0.1,0,1.4,-0.8]])
e = np.array([[0,2,4],[2,1,4],[1,3,4],[3,0,4],[2,0,5],[1,2,5],[3,1,5],[0,3,5]]).T
g = b.Grid(v, e); g=g.refine()
p1=b.function_space(g,"P",1); dp0=b.function_space(g,"DP",0); rwg=b.function_space(g,"RWG",0); snc=b.function_space(g,"SNC",0)
B=b.operators.boundary
rng=np.random.RandomState(0)
def cmp(name, mkop, n, cplx=False):
    try:
        Ad=mkop('dense').weak_form().to_dense(); Af=mkop('fmm').weak_form()
        x=rng.rand(n)+(1j*rng.rand(n) if cplx else 0)
        d=np.abs(Af@x-Ad@x).max()/np.abs(Ad@x).max(); print(f'{name:40s} rel diff {d:.1e}')
    except Exception as ex: print(f'{name:40s} RAISES {type(ex).__name__}: {str(ex)[:90]}')
k=1.7; w=0.9
for fam,args in [('laplace',()),('helmholtz',(k,)),('modified_helmholtz',(w,))]:
    M=getattr(B,fam)
    cmp(fam+' SL dp0', lambda a: M.single_layer(dp0,dp0,dp0,*args,assembler=a), dp0.global_dof_count)
    cmp(fam+' SL p1', lambda a: M.single_layer(p1,p1,p1,*args,assembler=a), p1.global_dof_count, True)
    cmp(fam+' DL p1->dp0', lambda a: M.double_layer(p1,dp0,dp0,*args,assembler=a), p1.global_dof_count)
    cmp(fam+' ADL dp0->p1', lambda a: M.adjoint_double_layer(dp0,p1,p1,*args,assembler=a), dp0.global_dof_count)
    cmp(fam+' HYP p1', lambda a: M.hypersingular(p1,p1,p1,*args,assembler=a), p1.global_dof_count)
cmp('maxwell E', lambda a: B.maxwell.electric_field(rwg,rwg,snc,k,assembler=a), rwg.global_dof_count, True)
cmp('maxwell M', lambda a: B.maxwell.magnetic_field(rwg,rwg,snc,k,assembler=a), rwg.global_dof_count, True)
cmp('helmholtz complex k SL', lambda a: B.helmholtz.single_layer(p1,p1,p1,k+0.3j,assembler=a), p1.global_dof_count, True)
