import numpy as np, itertools
import bempp_cl.api as b
def meshes():
    v = np.array([[0,1,0,0],[0,0,1,0],[0,0,0,1.]]); e = np.array([[0,0,0,1],[2,1,3,2],[1,3,2,3]])
    yield 'tet', v, e, [0,0,1,1]
    # octahedron
    v = np.array([[1,-1,0,0,0,0],[0,0,1,-1,0,0],[0,0,0,0,1,-1.]])
    e = np.array([[0,2,4],[2,1,4],[1,3,4],[3,0,4],[2,0,5],[1,2,5],[3,1,5],[0,3,5]]).T
    yield 'oct', v, e, [0,0,1,1,2,2,0,1]
    # 3x2 strip (open), 8 triangles
    pts=[(i,j) for j in range(3) for i in range(3)]; v=np.array([[p[0] for p in pts],[p[1] for p in pts],[0.1*p[0]*p[1] for p in pts]],dtype=float)
    el=[]
    for j in range(2):
        for i in range(2):
            a=j*3+i; el += [[a,a+1,a+4],[a,a+4,a+3]]
    yield 'strip', v, np.array(el).T, [0,0,1,1,0,1,2,2]
bad=0; n=0
for name,v,e,dom in meshes():
    g = b.Grid(v,e,np.array(dom,dtype='uint32'))
    for kind,deg in [("DP",0),("DP",1),("P",1),("RWG",0),("SNC",0),("DUAL",0),("DUAL",1),("BC",0),("RBC",0)]:
        for segs in (None,[0],[1],[0,1],[2]):
            for ib in (False,True):
                for tr in (False,True):
                    kw={}
                    if segs is not None: kw['segments']=segs
                    if kind in ("P","RWG","SNC","DUAL","BC","RBC"): kw.update(include_boundary_dofs=ib, truncate_at_segment_edge=tr)
                    elif ib or tr: continue
                    try:
                        s = b.function_space(g, kind, deg, **kw)
                    except Exception as ex:
                        print('ERR', name, kind, deg, kw, type(ex).__name__, str(ex)[:80]); continue
                    for sp in (s, s.localised_space) + ((s.barycentric_representation(),) if (s.barycentric_representation and not s.is_barycentric) else ()):
                        if sp is None: continue
                        n+=1
                        cm = sp.color_map; l2g = sp.local2global; supp = sp.support_elements
                        for a,c in itertools.combinations(supp,2):
                            if cm[a]==cm[c] and set(l2g[a]) & set(l2g[c]):
                                bad+=1; print('RACE?', name, kind, deg, kw, 'bary' if sp.is_barycentric else '', a, c, l2g[a], l2g[c], sp.local_multipliers[a], sp.local_multipliers[c]); break
print('spaces', n, 'bad', bad)
