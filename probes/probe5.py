import z3, time
a = [z3.Real(f'a{i}') for i in range(3)]; b = [z3.Real(f'b{i}') for i in range(3)]
def dot(u,v): return sum(x*y for x,y in zip(u,v))
g11, g12, g22 = dot(a,a), dot(a,b), dot(b,b)
det = g11*g22 - g12*g12
inv = z3.Real('inv')
Jit0 = [(a[i]*g22 - b[i]*g12)*inv for i in range(3)]
Jit1 = [(-a[i]*g12 + b[i]*g11)*inv for i in range(3)]
s = z3.Solver(); s.set('timeout', 60000); s.add(det*inv == 1)
s.add(z3.Or(dot(a,Jit0)!=1, dot(b,Jit0)!=0, dot(a,Jit1)!=0, dot(b,Jit1)!=1))
t=time.time(); print('J^T Jit = I (inv var)', s.check(), round(time.time()-t,3))
# quaternion rotation
w,x,y,z = z3.Reals('qw qx qy qz')
M = [[w*w+x*x-y*y-z*z, 2*(x*y-w*z), 2*(x*z+w*y)],
     [2*(x*y+w*z), w*w-x*x+y*y-z*z, 2*(y*z-w*x)],
     [2*(x*z-w*y), 2*(y*z+w*x), w*w-x*x-y*y+z*z]]
nq = w*w+x*x+y*y+z*z
Ra = [sum(M[i][j]*a[j] for j in range(3)) for i in range(3)]
Rb = [sum(M[i][j]*b[j] for j in range(3)) for i in range(3)]
s = z3.Solver(); s.set('timeout', 60000); s.add(nq == 1); s.add(dot(Ra,Rb) != dot(a,b))
t=time.time(); print('quat rot dot (unit constraint)', s.check(), round(time.time()-t,3))
s = z3.Solver(); s.set('timeout', 60000); s.add(dot(Ra,Rb) != nq*nq*dot(a,b))
t=time.time(); print('quat rot dot (homog identity)', s.check(), round(time.time()-t,3))
def cross(u,v): return [u[1]*v[2]-u[2]*v[1], u[2]*v[0]-u[0]*v[2], u[0]*v[1]-u[1]*v[0]]
c1 = cross(Ra,Rb); c0 = cross(a,b); Rc0 = [sum(M[i][j]*c0[j] for j in range(3)) for i in range(3)]
s = z3.Solver(); s.set('timeout', 60000); s.add(z3.Or([c1[i] != nq*Rc0[i] for i in range(3)]))
t=time.time(); print('cross equivariance', s.check(), round(time.time()-t,3))
