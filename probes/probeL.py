# C03(d)/C12(O4): singular remap lands on the shared entity, all local numberings
from symlib import *
import srchook; srchook.install()
import itertools, time
import bempp_cl.api as b
from bempp_cl.core.singular_assembler import _SingularQuadratureRuleInterfaceGalerkin as Rule
from bempp_cl.api.integration import duffy_galerkin as dg
# keep numeric duffy rule (floats) but lift
_d = dg.rule
import bempp_cl.core.singular_assembler as sga
t0=time.time(); nq=0; bad=0
base_v = np.array([[0,1,0,1.2],[0,0,1,1.1],[0,0,0,0.3]])
V = sym('v',(3,4))
perms3 = list(itertools.permutations(range(3)))
tri0=[0,1,2]; tri1=[1,3,2]   # share vertices 1,2
for pa in perms3:
  for pb in perms3:
    e = np.array([[tri0[i] for i in pa],[tri1[i] for i in pb]]).T
    g = b.Grid(base_v, e)
    order=1
    supp = np.ones(2,dtype=bool)
    r = Rule(g, order, supp, supp)
    tp, sp_, w, te, se, toff, soff, woff, nqp = r.get_arrays()
    # edge-adjacent entries
    for k in range(len(te)):
        if nqp[k] != dg.number_of_quadrature_points(order,'edge_adjacent'): continue
        T_, S_ = int(te[k]), int(se[k])
        # reference rule: points on the singular set: take test ref point p=(s,0) and trial ref point same -> apply the SAME remap as the code by
        # locating which remap the offsets select: compare code's points with remap of the base rule
        basep = r.edge_adjacent_rule
        npts = nqp[k]
        tpts = tp[:, toff[k]:toff[k]+npts]; spts = sp_[:, soff[k]:soff[k]+npts]
        # find (v0,v1) used for test and trial by matching
        def which(pts, ref):
            for a in range(3):
                for c in range(3):
                    if a==c: continue
                    if np.allclose(dg.remap_points_shared_edge(np.asarray(ref,dtype=float), a, c), np.asarray(pts,dtype=float)): return (a,c)
        ft = which(tpts, basep.test_points); fs = which(spts, basep.trial_points)
        s_ = SR(z3.Real('s'))
        P = np.array([[s_],[SR.lift(0)]], dtype=object).view(SA)    # point on reference edge 0-1 (bempp coords: x along v1, y along v2)
        pt = dg.remap_points_shared_edge(P, *ft); ps = dg.remap_points_shared_edge(P, *fs)
        def glob(el, p):
            v0,v1,v2 = [V[:, e[i,el]] for i in range(3)]
            return [v0[d] + (v1[d]-v0[d])*p[0,0] + (v2[d]-v0[d])*p[1,0] for d in range(3)]
        X = glob(T_, pt); Y = glob(S_, ps)
        sol = z3.Solver(); sol.add(z3.Or([T(X[d]) != T(Y[d]) for d in range(3)]))
        res = sol.check(); nq+=1
        if res != z3.unsat: bad+=1; print('BAD', pa, pb, T_, S_, ft, fs, r.edge_adjacency[:,0])
print('queries', nq, 'bad', bad, time.time()-t0)
