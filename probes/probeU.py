from common_api import *
# mesh: tetrahedron + separate fan of 2 -> regular and singular interactions
v=np.hstack([np.array(TET_V), np.array([[3,4,3,4.],[0,0,1,1],[0,0,0,0.5]])]); e=np.hstack([np.array(TET_E), np.array([[4,5],[5,7],[6,6]])])
g=symgrid(v,e,[0,0,1,1,2,2])
K,kreg,ksing=uf_kernel('K'); nk.laplace_double_layer_regular=kreg; nk.laplace_double_layer_singular=ksing
b.GLOBAL_PARAMETERS.quadrature.regular=2; b.GLOBAL_PARAMETERS.quadrature.singular=1
L=b.operators.boundary.laplace
for kw in ({}, {'segments':[0,2],'include_boundary_dofs':True}, {'segments':[1],'include_boundary_dofs':True,'truncate_at_segment_edge':True}):
    p1=b.function_space(g,"P",1,**kw); dp1=b.function_space(g,"DP",1); dp0=b.function_space(g,"DP",0)
    t=time.time()
    A=L.double_layer(p1,p1,dp0).weak_form().to_dense()      # trial P1, test DP0
    Af=L.double_layer(dp1,dp1,dp0).weak_form().to_dense()
    Tm=np.asarray(p1.map_to_full_grid.todense())
    spec=Af @ lift_arr(Tm)
    s=z3.Solver(); s.add(neq_any(A,spec)); dump(s,'u.smt2')
    print(kw, 'assembled', round(time.time()-t,2), A.shape, 'cvc5', cvc5('u.smt2'))
