import numpy as np
import bempp_cl.api as b
v = np.array([[1,-1.3,0,0,0.2,0],[0,0,1.1,-1,0,0],[0,0,0.1,0,1.4,-0.8]])
e = np.array([[0,2,4],[2,1,4],[1,3,4],[3,0,4],[2,0,5],[1,2,5],[3,1,5],[0,3,5]]).T
g = b.Grid(v, e)
for kind,deg in [("DUAL",0),("DUAL",1)]:
    sp=b.function_space(g,kind,deg); bg=sp.grid
    print(kind,deg,'dofs',sp.global_dof_count,'barycentric?',sp.is_barycentric, 'shape fns', sp.number_of_shape_functions)
    # evaluate basis function 0 at all bary-grid vertices (from each element) -> collect values by vertex type
    for dof in (0,1):
        c=np.zeros(sp.global_dof_count); c[dof]=1; f=b.GridFunction(sp,coefficients=c)
        vals={}
        for be in range(bg.number_of_elements):
            ev=f.evaluate(be, np.array([[0,1,0],[0,0,1.]]))[0]
            for k in range(3):
                vid=bg.elements[k,be]; vals.setdefault(vid,set()).add(round(float(ev[k]),6))
        nv=g.number_of_vertices; ne=g.number_of_elements
        typ=lambda vid: 'vertex' if vid<nv else ('?')
        summary={}
        for vid,s in vals.items():
            if s!={0.0}: summary[vid]=s
        print(' dof',dof, {k:(sorted(s)) for k,s in summary.items()})
    # partition of unity at a few points
    f1=b.GridFunction(sp,coefficients=np.ones(sp.global_dof_count))
    print(' sum of basis at sample points', [float(f1.evaluate(be,np.array([[0.3],[0.2]]))[0,0]) for be in (0,7,13)])
