import numpy as np
import bempp_cl.api as b
from bempp_cl.core import numba_kernels as nk
TET_V=[[0,1,0,0],[0,0,1,0],[0,0,0,1.]]; TET_E=[[0,0,0,1],[2,1,3,2],[1,3,2,3]]
v=np.hstack([np.array(TET_V), np.array([[3,4,3,4.],[0,0,1,1],[0,0,0,0.5]])]); e=np.hstack([np.array(TET_E), np.array([[4,5],[5,7],[6,6]])])
g=b.Grid(v,e)
b.GLOBAL_PARAMETERS.quadrature.regular=2; b.GLOBAL_PARAMETERS.quadrature.singular=3
rwg=b.function_space(g,"RWG",0,include_boundary_dofs=True); snc=b.function_space(g,"SNC",0,include_boundary_dofs=True)
dp1=b.function_space(g,"DP",1); dp0=b.function_space(g,"DP",0)
k=1.3+0.2j
E=b.operators.boundary.maxwell.electric_field(rwg,rwg,snc,k).weak_form().to_dense()
V1=b.operators.boundary.helmholtz.single_layer(dp1,dp1,dp1,k).weak_form().to_dense(); V0=b.operators.boundary.helmholtz.single_layer(dp0,dp0,dp0,k).weak_form().to_dense()
NE=g.number_of_elements; nd=rwg.global_dof_count
nodes=np.array([[0,1,0],[0,0,1.]])
R=[np.zeros((3*NE,nd)) for _ in range(3)]; D=np.zeros((NE,nd))
for el in range(NE):
    vals=rwg.evaluate(el,nodes)
    for i in range(3):
        j=rwg.local2global[el,i]
        for a in range(3):
            for c in range(3): R[c][3*el+a,j]+=vals[c,i,a]
        ed=[(0,1),(2,0),(1,2)][i]; l=np.linalg.norm(g.vertices[:,g.elements[ed[0],el]]-g.vertices[:,g.elements[ed[1],el]])
        D[el,j]+=rwg.local_multipliers[el,i]*2*l/g.integration_elements[el]
spec=-1j*k*sum(R[c].T@V1@R[c] for c in range(3)) - 1/(1j*k)*(D.T@V0@D)
err=np.abs(E-spec)/np.abs(E).max()
np.set_printoptions(precision=1, linewidth=200)
print(err)
