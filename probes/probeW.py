from common_api import *
import ratlib
v=np.hstack([np.array(TET_V), np.array([[3,4,3,4.],[0,0,1,1],[0,0,0,0.5]])]); e=np.hstack([np.array(TET_E), np.array([[4,5],[5,7],[6,6]])])
g=symgrid(v,e)
Kr=z3.Function('Kr',*([z3.RealSort()]*6),z3.RealSort()); Ki=z3.Function('Ki',*([z3.RealSort()]*6),z3.RealSort())
def kreg(tp,yp,tn,yn,params):
    out=np.empty(yp.shape[1],dtype=object)
    for j in range(yp.shape[1]):
        a=[T(c) for c in tp]+[T(c) for c in yp[:,j]]; out[j]=SC(SR(Kr(*a)),SR(Ki(*a)))
    return out.view(SA)
def ksing(tp,yp,tn,yn,params):
    out=np.empty(yp.shape[1],dtype=object)
    for j in range(yp.shape[1]):
        a=[T(c) for c in tp[:,j]]+[T(c) for c in yp[:,j]]; out[j]=SC(SR(Kr(*a)),SR(Ki(*a)))
    return out.view(SA)
nk.helmholtz_single_layer_regular=kreg; nk.helmholtz_single_layer_singular=ksing
b.GLOBAL_PARAMETERS.quadrature.regular=2; b.GLOBAL_PARAMETERS.quadrature.singular=1
rwg=b.function_space(g,"RWG",0,include_boundary_dofs=True); snc=b.function_space(g,"SNC",0,include_boundary_dofs=True)
dp1=b.function_space(g,"DP",1); dp0=b.function_space(g,"DP",0)
kr,ki=SR(z3.Real('kr')),SR(z3.Real('ki'))
class KW(complex): pass
import bempp_cl.api.operators.boundary.maxwell as mx, bempp_cl.api.operators.boundary.helmholtz as hh
# pass symbolic wavenumber: np.real/np.imag of SC -> shim
k=SC(kr,ki)
shim.real=lambda x: x.re if isinstance(x,SC) else np.real(x)
shim.imag=lambda x: x.im if isinstance(x,SC) else np.imag(x)
t=time.time()
try:
    E=mx.electric_field(rwg,rwg,snc,k).weak_form().to_dense()
    print('E assembled', round(time.time()-t,2), E.shape, type(E[0,0]))
except Exception as ex:
    import traceback; traceback.print_exc()
t=time.time()
V1=hh.single_layer(dp1,dp1,dp1,k).weak_form().to_dense(); V0=hh.single_layer(dp0,dp0,dp0,k).weak_form().to_dense()
print('V assembled', round(time.time()-t,2), V1.shape, V0.shape)
NE=g.number_of_elements; nd=rwg.global_dof_count
nodes=lift_arr(np.array([[0,1,0],[0,0,1.]]))
R=[np.zeros((3*NE,nd),dtype=object) for _ in range(3)]; D=np.zeros((NE,nd),dtype=object)
gd=g.data()
el_len=nk.get_edge_lengths(gd, np.arange(NE))
for el in range(NE):
    vals=rwg.evaluate(el,nodes)    # (3, nshape, 3 nodes)
    for i in range(3):
        j=rwg.local2global[el,i]
        for a in range(3):
            for c in range(3): R[c][3*el+a,j]=R[c][3*el+a,j]+vals[c,i,a]
        D[el,j]=D[el,j]+rwg.local_multipliers[el,i]*2*el_len[el,i]/gd.integration_elements[el]
def cmat(M): return M
ik=SC(0,1)*k
def mm(A,B): return A@B
spec = -(ik)*sum(R[c].T @ V1 @ R[c] for c in range(3)) - (SC(1,0)/ik)*(D.T @ V0 @ D)
print('spec built', round(time.time()-t,2))
import os
print('--- per-entry, no abstraction constraints')
import concurrent.futures as cf
t=time.time()
todo=[(i,j) for i in range(nd) for j in range(nd)]
for (i,j) in todo:
    a=SC.lift(E[i,j]); c=SC.lift(spec[i,j])
    s=z3.Solver(); s.add(z3.Or(ratlib.cross_neq(a.re,c.re), ratlib.cross_neq(a.im,c.im))); dump(s,f'w_{i}_{j}.smt2')
print('dumped', round(time.time()-t,1))
def one(ij):
    i,j=ij; p=f'w_{i}_{j}.smt2'
    return ij, cvc5(p, 120), os.path.getsize(p)
with cf.ThreadPoolExecutor(16) as ex:
    res=list(ex.map(one, todo))
from collections import Counter
print(Counter(r[1][0] for r in res), 'max time', max(r[1][1] for r in res), 'wall', round(time.time()-t,1))
print([r for r in res if r[1][0]!='unsat'][:5])
st=np.empty((nd,nd),dtype=object)
for (ij,r,_) in res: st[ij]= 'U' if r[0]=='unsat' else 'S'
for row in st: print(''.join(row))
print(rwg.local2global.tolist())
print(snc.local2global.tolist(), np.array_equal(rwg.local_multipliers, snc.local_multipliers))
