from symlib import *
import srchook; srchook.install()
import sparseshim, time, sys, types
sparseshim.install()
import bempp_cl.api as b
import bempp_cl.core.numba_kernels as nk, bempp_cl.core.numba_assemblers as na, bempp_cl.core.dense_assembler as da, bempp_cl.core.singular_assembler as sga, bempp_cl.core.sparse_assembler as spa
import bempp_cl.api.space.space as sp, bempp_cl.api.space.scalar_spaces as ss, bempp_cl.api.fmm.helpers as fh, bempp_cl.api.fmm.fmm_assembler as fa, bempp_cl.api.fmm.exafmm as fe, bempp_cl.api.grid.grid as gg
# --- UF kernel family: G0 value, G1..3 gradient wrt target
Gs = [z3.Function(f'G{i}', *([z3.RealSort()]*6), z3.RealSort()) for i in range(4)]
def same(p, q): return all(z3.simplify(a.t - c.t).eq(z3.RealVal(0)) for a, c in zip(p, q))
def Gv(i, x, y):
    return SR(Gs[i](*[a.t for a in x], *[c.t for c in y]))
# stub exafmm: exact summation with the UF family, zero for coincident points
class _Tree: pass
def mk(modname):
    m = types.ModuleType(modname)
    st = {}
    m.init_sources = lambda pts, ch: ('src', pts)
    m.init_targets = lambda pts: ('trg', pts)
    def Fmm(*a, **k): return 'fmm'
    m.LaplaceFmm = Fmm
    def setup(src, trg, fmm):
        t = _Tree(); t.src = src[1]; t.trg = trg[1]; t.ch = None; return t
    m.setup = setup
    def update_charges(tree, vec): tree.ch = vec
    m.update_charges = update_charges
    m.clear_values = lambda tree: None
    def evaluate(tree, fmm):
        out = np.zeros((len(tree.trg), 4), dtype=object)
        for i, x in enumerate(tree.trg):
            for j, y in enumerate(tree.src):
                if same(x, y): continue
                for c in range(4): out[i, c] = out[i, c] + Gv(c, x, y) * tree.ch[j]
        return out.view(SA)
    m.evaluate = evaluate
    return m
ex = types.ModuleType('exafmm'); ex.laplace = mk('exafmm.laplace'); sys.modules['exafmm'] = ex; sys.modules['exafmm.laplace'] = ex.laplace
# replace near-field kernel in helpers by UF version with same zero-distance convention
def laplace_kernel(target_points, source_points, kernel_parameters, dtype, result_type):
    nt = target_points.shape[1]; ns = source_points.shape[1]
    out = np.zeros(4*nt*ns, dtype=object)
    for ti in range(nt):
        for j in range(ns):
            x = list(target_points[:, ti]); y = list(source_points[:, j])
            if same(x, y): continue
            for c in range(4): out[ti*4*ns + 4*j + c] = Gv(c, x, y)
    return out.view(SA)
fh.laplace_kernel = laplace_kernel
def kreg(tp, yp, tn, yn, params):
    out = np.empty(yp.shape[1], dtype=object)
    for j in range(yp.shape[1]): out[j] = Gv(0, list(tp), list(yp[:, j]))
    return out.view(SA)
def ksing(tp, yp, tn, yn, params):
    out = np.empty(yp.shape[1], dtype=object)
    for j in range(yp.shape[1]): out[j] = Gv(0, list(tp[:, j]), list(yp[:, j]))
    return out.view(SA)
nk.laplace_single_layer_regular = kreg; nk.laplace_single_layer_singular = ksing

v = np.array([[0,1,0,0, 3,4,3],[0,0,1,0, 0,0,1],[0,0,0,1., 0,0,0]]); e = np.array([[0,0,0,1,4],[2,1,3,2,5],[1,3,2,3,6]])
g = b.Grid(v, e); NE=5
p1 = b.function_space(g, "P", 1)
g._vertices = sym('v',(3,7)); g._normals = sym('n',(NE,3))
gd = g._grid_data_double
gd.vertices = g._vertices; gd.normals = g._normals; gd.integration_elements = sym('ie',(NE,)); gd.jacobians = sym('J',(NE,3,2)); gd.jac_inv_trans = sym('Jit',(NE,3,2))
import bempp_cl.api.integration.triangle_gauss as tg, bempp_cl.api.integration.duffy_galerkin as dg
_r = tg.rule; tg.rule = lambda o: tuple(lift_arr(x) for x in _r(o))
_d = dg.rule; dg.rule = lambda o, a: tuple(lift_arr(x) for x in _d(o, a))
b.GLOBAL_PARAMETERS.quadrature.regular=2; b.GLOBAL_PARAMETERS.quadrature.singular=1
t=time.time()
Ad = b.operators.boundary.laplace.single_layer(p1,p1,p1).weak_form().to_dense()
print('dense', time.time()-t)
t=time.time()
Af = b.operators.boundary.laplace.single_layer(p1,p1,p1, assembler='fmm').weak_form()
x = sym('x', (p1.global_dof_count,))
yf = Af @ x
print('fmm matvec', time.time()-t, type(yf), yf.shape)
yd = Ad @ x
s = z3.Solver(); s.set('timeout', 120000)
s.add(z3.Or([T(yf[i]) != T(yd[i]) for i in range(len(yd))]))
open('k.smt2','w').write('(set-logic QF_UFNRA)\n'+s.to_smt2())
t=time.time(); print('z3', s.check(), time.time()-t)
