import z3, time, subprocess, sys
from fractions import Fraction as F
from math import factorial
Q=4
x=[z3.Real(f'x{q}') for q in range(Q)]; y=[z3.Real(f'y{q}') for q in range(Q)]; w=[z3.Real(f'w{q}') for q in range(Q)]
def I(a,b): return z3.RealVal(str(F(factorial(a)*factorial(b), factorial(a+b+2))))
def pw(t,n):
    r=z3.RealVal(1)
    for _ in range(n): r=r*t
    return r
def moments(deg):
    return [z3.Sum([w[q]*pw(x[q],a)*pw(y[q],b) for q in range(Q)])==I(a,b) for a in range(deg+1) for b in range(deg+1-a)]
phi=lambda q:[1-x[q]-y[q], x[q], y[q]]
s=z3.Solver(); s.add(moments(2))
neg=[]
for i in range(3):
    for j in range(3):
        m=z3.Sum([w[q]*phi(q)[i]*phi(q)[j] for q in range(Q)])
        neg.append(m != z3.RealVal(str(F(2 if i==j else 1,24))))
s.add(z3.Or(neg))
open('e.smt2','w').write('(set-logic QF_NRA)\n'+s.to_smt2())
# monomial abstraction: expand with som and replace nonlinear monomials
cache={}
def absmono(e):
    e=z3.simplify(e, som=True, mul_to_power=False, flat=True)
    def walk(t):
        if z3.is_mul(t):
            ch=t.children()
            consts=[c for c in ch if z3.is_rational_value(c)]
            rest=[c for c in ch if not z3.is_rational_value(c)]
            if len(rest)>1:
                key=tuple(sorted(str(c) for c in rest))
                v=cache.setdefault(key, z3.Real('m!'+'*'.join(key)))
                r=v
                for c in consts: r=c*r
                return r
            return t
        if t.num_args()==0: return t
        return t.decl()(*[walk(c) for c in t.children()])
    return walk(e)
t=time.time()
s2=z3.Solver()
for a in s.assertions(): s2.add(absmono(a))
print('abstracted', s2.check(), round(time.time()-t,3), len(cache),'monomials')
