from symlib import *
import srchook; srchook.install()
import sparseshim; sparseshim.install()
import time
import bempp_cl.api as b
from bempp_cl.api.assembly.discrete_boundary_operator import DenseDiscreteBoundaryOperator as DD, SparseDiscreteBoundaryOperator as SD
from bempp_cl.api.assembly.boundary_operator import BoundaryOperator
# shim additions needed by algebra code
shim.isscalar = lambda x: isinstance(x,(SR,SC)) or np.isscalar(x)
shim.iscomplexobj = lambda x: (isinstance(x,np.ndarray) and x.dtype==object and any(isinstance(e,SC) for e in x.ravel())) or np.iscomplexobj(x)
shim.result_type = lambda *a: np.dtype(object)
v = np.array([[0,1,0,0],[0,0,1,0],[0,0,0,1.]]); e = np.array([[0,0,0,1],[2,1,3,2],[1,3,2,3]])
g = b.Grid(v, e); p1 = b.function_space(g,"P",1); dp0=b.function_space(g,"DP",0)
class Leaf(BoundaryOperator):
    def __init__(s, name, dom, ran, dual):
        super().__init__(dom, ran, dual, None); s.M = sym(name,(dual.global_dof_count, dom.global_dof_count))
    def _assemble(s): return DD(s.M)
A = Leaf('A',p1,p1,p1); B = Leaf('B',p1,p1,p1)
al = SR(z3.Real('alpha'))
t=time.time()
op = al*A + B - A*2.5
W = op.weak_form().to_dense()
print('sum/scale', time.time()-t, type(W), W.shape)
spec = al*A.M + B.M - A.M*2.5
s=z3.Solver(); s.add(z3.Or([T(W[i,j])!=T(spec[i,j]) for i in range(4) for j in range(4)])); print(s.check())
x = sym('x',(4,))
y = op.weak_form() @ x
s=z3.Solver(); s.add(z3.Or([T(y[i])!=T((spec@x)[i]) for i in range(4)])); print('matvec', s.check())
# product: needs inverse mass -> stub
try:
    P = (A*B).weak_form()
    print('product ok', type(P))
except Exception as ex:
    import traceback; traceback.print_exc()
