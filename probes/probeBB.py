import numpy as np, itertools
import bempp_cl.api as b
np.set_printoptions(precision=3, linewidth=160)
v = np.array([[1,-1.3,0,0,0.2,0],[0,0,1.1,-1,0,0],[0,0,0.1,0,1.4,-0.8]])
e = np.array([[0,2,4],[2,1,4],[1,3,4],[3,0,4],[2,0,5],[1,2,5],[3,1,5],[0,3,5]]).T
g = b.Grid(v, e, np.array([0,0,1,1,0,0,1,1],dtype='uint32'))
print('== C09 conformity (numeric) on octahedron')
def edge_points(gr, el0, el1):
    shared=[vv for vv in gr.elements[:,el0] if vv in gr.elements[:,el1]]
    a,c=shared; out=[]
    for s in (0.2,0.7):
        X=gr.vertices[:,a]*(1-s)+gr.vertices[:,c]*s; loc=[]
        for el in (el0,el1):
            V0=gr.vertices[:,gr.elements[0,el]]; J=np.c_[gr.vertices[:,gr.elements[1,el]]-V0, gr.vertices[:,gr.elements[2,el]]-V0]
            loc.append(np.linalg.lstsq(J,X-V0,rcond=None)[0].reshape(2,1))
        out.append((X,loc))
    return (gr.vertices[:,c]-gr.vertices[:,a]), out
for kind,deg in [("P",1),("RWG",0),("SNC",0),("BC",0),("RBC",0),("DUAL",1)]:
    sp=b.function_space(g,kind,deg); gr=sp.grid
    rng=np.random.RandomState(1); f=b.GridFunction(sp,coefficients=rng.rand(sp.global_dof_count))
    worst=0
    for ed in range(gr.number_of_edges):
        nb=gr.edge_neighbors[ed]
        if len(nb)!=2: continue
        tvec,pts=edge_points(gr,nb[0],nb[1])
        for X,loc in pts:
            a=f.evaluate(nb[0],loc[0])[:,0]; c=f.evaluate(nb[1],loc[1])[:,0]
            if sp.codomain_dimension==1: d=abs(a[0]-c[0])
            else:
                if kind in ("RWG","BC"):   # normal component: conormal = t x n
                    n0=gr.normals[nb[0]]; n1=gr.normals[nb[1]]
                    d=abs(np.dot(a,np.cross(tvec,n0)) - np.dot(c,np.cross(tvec,n1)))
                else: d=abs(np.dot(a,tvec)-np.dot(c,tvec))
            worst=max(worst,d)
    print(f' {kind}{deg}: max jump across interior edges {worst:.2e}  (dofs {sp.global_dof_count}, barycentric {sp.is_barycentric})')
print('== C11 numeric invariants')
for name,gr in [('oct',g)]:
    r=gr.refine(); bb=gr.barycentric_refinement
    print(' area', gr.volumes.sum(), r.volumes.sum(), bb.volumes.sum())
    print(' refine normals parallel', np.abs(np.repeat(gr.normals,4,axis=0)-r.normals).max(), 'bary', np.abs(np.repeat(gr.normals,6,axis=0)-bb.normals).max())
    print(' dom idx', np.array_equal(r.domain_indices,np.repeat(gr.domain_indices,4)), np.array_equal(bb.domain_indices,np.repeat(gr.domain_indices,6)))
    ea=gr.edge_adjacency; va=gr.vertex_adjacency
    pairs_e={(i,j) for i in range(8) for j in range(8) if i!=j and len(set(gr.elements[:,i])&set(gr.elements[:,j]))==2}
    pairs_v={(i,j) for i in range(8) for j in range(8) if i!=j and len(set(gr.elements[:,i])&set(gr.elements[:,j]))==1}
    print(' edge adj complete', pairs_e=={(int(a),int(c)) for a,c in ea[:2].T}, ea.shape, 'vertex adj complete', pairs_v=={(int(a),int(c)) for a,c in va[:2].T}, va.shape)
    ok=all(gr.elements[ea[2,k],ea[0,k]]==gr.elements[ea[4,k],ea[1,k]] and gr.elements[ea[3,k],ea[0,k]]==gr.elements[ea[5,k],ea[1,k]] for k in range(ea.shape[1])); print(' edge local idx ok', ok)
    ok=all(gr.elements[va[2,k],va[0,k]]==gr.elements[va[3,k],va[1,k]] for k in range(va.shape[1])); print(' vertex local idx ok', ok)
    u=b.grid.union([gr,gr]); print(' union', u.number_of_elements, u.volumes.sum(), sorted(set(u.domain_indices)))
    from bempp_cl.api.grid.grid import grid_from_segments
    s1=grid_from_segments(gr,[1]); print(' segments', s1.number_of_elements, s1.volumes.sum(), gr.volumes[gr.domain_indices==1].sum(), np.abs(s1.normals-gr.normals[gr.domain_indices==1]).max())
print('== C15 numeric')
p1=b.function_space(g,"P",1); dp0=b.function_space(g,"DP",0)
V=b.operators.boundary.laplace.single_layer(dp0,dp0,dp0); W=b.operators.boundary.laplace.hypersingular(p1,p1,p1); I=b.operators.boundary.sparse.identity(p1,p1,p1)
rng=np.random.RandomState(0)
f=b.GridFunction(dp0,coefficients=rng.rand(8))
x=b.linalg.lu(V,V*f); print(' lu', np.abs(x.coefficients-f.coefficients).max(), x.space==V.domain)
for sf in (False,True):
    x,info,res,it=b.linalg.gmres(V,V*f,tol=1e-10,use_strong_form=sf,return_residuals=True,return_iteration_count=True); print(' gmres sf',sf,np.abs(x.coefficients-f.coefficients).max(),info,it,len(res))
    x,info,res,it=b.linalg.cg(V,V*f,tol=1e-10,use_strong_form=sf,return_residuals=True,return_iteration_count=True); print(' cg sf',sf,np.abs(x.coefficients-f.coefficients).max(),info,it,len(res))
A=b.BlockedOperator(2,2); A[0,0]=V; A[1,1]=W+I; 
D=b.operators.boundary.laplace.double_layer(p1,dp0,dp0); A[0,1]=D
fl=[f, b.GridFunction(p1,coefficients=rng.rand(6))]
rhs=A*fl
xl=b.linalg.lu(A,rhs); print(' blocked lu', [np.abs(a.coefficients-c.coefficients).max() for a,c in zip(xl,fl)], [a.space==s for a,s in zip(xl,A.domain_spaces)])
for sf in (False,True):
    try:
        xl,info=b.linalg.gmres(A,rhs,tol=1e-10,use_strong_form=sf); print(' blocked gmres sf',sf,[np.abs(a.coefficients-c.coefficients).max() for a,c in zip(xl,fl)],info)
    except Exception as ex: print(' blocked gmres sf',sf,'RAISES',type(ex).__name__,str(ex)[:100])
lf=b.linalg.compute_lu_factors(V); x2=b.linalg.lu(V,V*f,lu_factor=lf); print(' lu factors', np.abs(x2.coefficients-f.coefficients).max())
