# probe: SR with factored denominators (rational-function proxies); monkeypatches symlib.SR arithmetic
import z3, numpy as np
from fractions import Fraction
import symlib
from symlib import SR, SC, ABS

def _factors(term):
    """split a z3 real term into (coeff Fraction, {id:(atom,power)}) with atoms = non-product, non-constant terms; sums get content extracted"""
    term = z3.simplify(term, som=True, mul_to_power=False)
    coeff = Fraction(1); fac = {}
    def addf(e, p=1):
        k = e.get_id(); fac[k] = (e, fac.get(k, (e, 0))[1] + p)
    def walk(t):
        nonlocal coeff
        if z3.is_rational_value(t): coeff *= t.as_fraction(); return
        if z3.is_mul(t):
            for c in t.children(): walk(c)
            return
        if z3.is_app(t) and t.decl().kind() == z3.Z3_OP_UMINUS:
            coeff *= -1; walk(t.arg(0)); return
        if z3.is_add(t):
            # content extraction
            terms = []
            for tm in t.children():
                c0, f0 = _factors_mono(tm); terms.append((c0, f0))
            common = dict(terms[0][1])
            for _, f in terms[1:]:
                common = {k: (e, min(p, f[k][1])) for k, (e, p) in common.items() if k in f}
            rest = z3.RealVal(0)
            for c0, f in terms:
                t2 = z3.RealVal(str(c0))
                for k, (e, p) in f.items():
                    for _ in range(p - common.get(k, (e, 0))[1]): t2 = t2 * e
                rest = rest + t2
            for k, (e, p) in common.items(): addf(e, p)
            addf(z3.simplify(rest, som=True, mul_to_power=False)); return
        addf(t)
    walk(term)
    return coeff, fac
def _factors_mono(tm):
    c = Fraction(1); f = {}
    for x in (tm.children() if z3.is_mul(tm) else [tm]):
        if z3.is_rational_value(x): c *= x.as_fraction()
        elif z3.is_app(x) and x.decl().kind() == z3.Z3_OP_UMINUS: c *= -1; k = x.arg(0).get_id(); f[k] = (x.arg(0), f.get(k, (x.arg(0), 0))[1] + 1)
        else: k = x.get_id(); f[k] = (x, f.get(k, (x, 0))[1] + 1)
    return c, f
def _prod(fac):
    r = z3.RealVal(1)
    for k, (e, p) in fac.items():
        for _ in range(p): r = r * e
    return r
def _lcm(d1, d2):
    out = dict(d1)
    for k, (e, p) in d2.items(): out[k] = (e, max(p, out.get(k, (e, 0))[1]))
    return out
def _quot(L, d):
    return {k: (e, p - d.get(k, (e, 0))[1]) for k, (e, p) in L.items() if p - d.get(k, (e, 0))[1] > 0}

def den(s): return getattr(s, 'd', {})
def mk(t, d):
    r = SR(t); r.d = d; return r
def lift(o): return SR.lift(o)
def add(s, o):
    o = lift(o); L = _lcm(den(s), den(o))
    return mk(s.t * _prod(_quot(L, den(s))) + o.t * _prod(_quot(L, den(o))), L)
def mul(s, o):
    o = lift(o); d = dict(den(s))
    for k, (e, p) in den(o).items(): d[k] = (e, d.get(k, (e, 0))[1] + p)
    return mk(s.t * o.t, d)
def recip(o):
    o = lift(o); c, fac = _factors(o.t)
    return mk(z3.RealVal(str(1 / c)) * _prod(den(o)), fac)
def guard(f):
    def w(s, o):
        if isinstance(o, np.ndarray) or not isinstance(o, (SR, SC, int, float, complex, np.number, Fraction)): return NotImplemented
        if isinstance(o, (SC, complex)): return getattr(SC.lift(s), f.__name__)(o)
        return f(s, o)
    w.__name__ = f.__name__; return w
def __add__(s, o): return add(s, o)
def __sub__(s, o): return add(s, mul(lift(o), -1))
def __rsub__(s, o): return add(lift(o), mul(s, -1))
def __mul__(s, o): return mul(s, o)
def __truediv__(s, o): return mul(s, recip(o))
def __rtruediv__(s, o): return mul(lift(o), recip(s))
SR.__add__ = guard(__add__); SR.__radd__ = SR.__add__
SR.__sub__ = guard(__sub__); SR.__rsub__ = guard(__rsub__)
SR.__mul__ = guard(__mul__); SR.__rmul__ = SR.__mul__
SR.__truediv__ = guard(__truediv__); SR.__rtruediv__ = guard(__rtruediv__)
SR.__neg__ = lambda s: mul(s, -1)
def plain(s):
    """z3 term with inverse atoms (for abstraction arguments / non-identity queries)"""
    t = s.t
    for k, (e, p) in den(s).items():
        for _ in range(p): t = t * ABS.app('inv', e)
    return t
_osqrt = SR.sqrt
SR.sqrt = lambda s: SR(ABS.app('sqrt', plain(s)))
def cross_neq(a, b):
    a = lift(a); b = lift(b); L = _lcm(den(a), den(b))
    return a.t * _prod(_quot(L, den(a))) != b.t * _prod(_quot(L, den(b)))
