import numpy as np, z3, time, types, sys
from fractions import Fraction
sys.setrecursionlimit(100000)
import numba
from numba.core.dispatcher import Dispatcher
from bempp_cl.core import numba_kernels as nk
from bempp_cl.api.grid import grid as gridmod
from bempp_cl.api.space import shapesets

def pyload(mod):
    G = dict(mod.__dict__)
    for k, v in list(G.items()):
        if isinstance(v, Dispatcher):
            pf = v.py_func
            G[k] = types.FunctionType(pf.__code__, G, pf.__name__, pf.__defaults__, pf.__closure__)
    return G

class SR:
    __array_priority__ = 1000
    def __init__(s, t): s.t = t
    @staticmethod
    def lift(o):
        if isinstance(o, SR): return o
        if isinstance(o, (bool, np.bool_)): raise TypeError
        if isinstance(o, (int, np.integer)): return SR(z3.RealVal(int(o)))
        if isinstance(o, (float, np.floating)):
            f = Fraction(float(o)); return SR(z3.RealVal(str(f)))
        raise TypeError(type(o))
    def __add__(s,o): return SR(s.t + SR.lift(o).t)
    __radd__ = __add__
    def __sub__(s,o): return SR(s.t - SR.lift(o).t)
    def __rsub__(s,o): return SR(SR.lift(o).t - s.t)
    def __mul__(s,o): return SR(s.t * SR.lift(o).t)
    __rmul__ = __mul__
    def __truediv__(s,o): return SR(s.t / SR.lift(o).t)
    def __neg__(s): return SR(-s.t)

def sym(name, shape):
    a = np.empty(shape, dtype=object)
    for idx in np.ndindex(*shape):
        a[idx] = SR(z3.Real(name + "_" + "_".join(map(str, idx))))
    return a
def lift_arr(a):
    out = np.empty(a.shape, dtype=object)
    for idx in np.ndindex(*a.shape): out[idx] = SR.lift(a[idx])
    return out

G = pyload(nk)
JM = gridmod.GridDataDouble.class_type.jit_methods
print(JM.keys())
class GD:
    pass
for k,v in JM.items():
    setattr(GD, k, v.py_func)
NE = 3
elements = np.array([[0,1,2],[1,2,3],[4,5,6]], dtype=object).T  # e0,e1 adjacent; e2 separate
class FakeGD: pass
gd = GD.__new__(GD)
gd.vertices = sym('v', (3,7)); gd.elements = elements
gd.normals = sym('n', (NE,3)); gd.integration_elements = sym('ie', (NE,)); gd.jacobians = sym('J', (NE,3,2))
K = z3.Function('K', *([z3.RealSort()]*12), z3.RealSort())
def kernel(tp, yp, tn, yn, params):
    out = np.empty(yp.shape[1], dtype=object)
    for j in range(yp.shape[1]):
        out[j] = SR(K(*[a.t for a in tp], *[yp[i,j].t for i in range(3)], *[a.t for a in tn], *[yn[i,j].t for i in range(3)]))
    return out
SG = pyload(shapesets)
p1 = SG['_p1_discontinuous_shapeset_evaluate'] if '_p1_discontinuous_shapeset_evaluate' in SG else None

p1 = SG['_p1_disc_shapeset_evaluate']
from bempp_cl.api.integration.triangle_gauss import rule
qp, qw = rule(2)
qp = lift_arr(qp); qw = lift_arr(qw)
nshape=3
l2g = np.array([[0,1,2],[1,2,3],[4,5,6]], dtype=object)
mult_t = sym('mt',(NE,3)); mult_s = sym('ms',(NE,3))
nm = np.array([1,1,1],dtype=object)
result = np.zeros((7,7), dtype=object)
t=time.time()
G['default_scalar_regular_kernel'](gd, gd, 3, 3, np.array([0,2]), np.array([0,1,2]), mult_t, mult_s, l2g, l2g, nm, nm, qp, qw, kernel, np.empty(0,dtype=object), True, p1, p1, result)
print('exec', time.time()-t)
print(type(result[0,4]), result[0,0])
# spec
def spec(I,J):
    tot = z3.RealVal(0)
    Q = len(qw)
    for te in [0,2]:
        for se in [0,1,2]:
            if set(elements[:,te]) & set(elements[:,se]): continue
            for i in range(3):
                if l2g[te,i]!=I: continue
                for j in range(3):
                    if l2g[se,j]!=J: continue
                    for q in range(Q):
                        xq = [gd.vertices[d, elements[0,te]].t + gd.jacobians[te][d,0].t*qp[0,q].t + gd.jacobians[te][d,1].t*qp[1,q].t for d in range(3)]
                        phi = [1-qp[0,q].t-qp[1,q].t, qp[0,q].t, qp[1,q].t][i]
                        for r in range(Q):
                            yr = [gd.vertices[d, elements[0,se]].t + gd.jacobians[se][d,0].t*qp[0,r].t + gd.jacobians[se][d,1].t*qp[1,r].t for d in range(3)]
                            psi = [1-qp[0,r].t-qp[1,r].t, qp[0,r].t, qp[1,r].t][j]
                            kv = K(*xq, *yr, *[gd.normals[te,d].t for d in range(3)], *[gd.normals[se,d].t for d in range(3)])
                            tot = tot + mult_t[te,i].t*mult_s[se,j].t*gd.integration_elements[te].t*gd.integration_elements[se].t*qw[q].t*qw[r].t*phi*psi*kv*(2 if (te==2 and se==1 and i==1 and q==0) else 1)
    return tot
t=time.time()
s = z3.Solver(); s.set('timeout', 120000)
diffs = []
for I in range(7):
    for J in range(7):
        r = result[I,J]
        rt = r.t if isinstance(r, SR) else z3.RealVal(r)
        diffs.append(rt != spec(I,J))
s.add(z3.Or(diffs))
print(s.check(), time.time()-t)

