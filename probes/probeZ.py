# C10: coarse function == barycentric representation pointwise (P1, DP0, DP1), symbolic coefficients and local point
import numpy as np, z3, time
from fractions import Fraction as F
import bempp_cl.api as b
v = np.array([[0,1,0,0.25],[0,0,1,0.5],[0,0,0,1.]]); e = np.array([[0,0,0,1],[2,1,3,2],[1,3,2,3]])
g = b.Grid(v, e, np.array([0,0,1,1],dtype='uint32'))
def rat(x): return F(x).limit_denominator(10**6)
def solve_local(el, X):
    V=[[rat(g.vertices[d, g.elements[k,el]]) for d in range(3)] for k in range(3)]
    a=[V[1][d]-V[0][d] for d in range(3)]; c=[V[2][d]-V[0][d] for d in range(3)]; r=[X[d]-V[0][d] for d in range(3)]
    aa=sum(x*x for x in a); ac=sum(x*y for x,y in zip(a,c)); cc=sum(x*x for x in c); ar=sum(x*y for x,y in zip(a,r)); cr=sum(x*y for x,y in zip(c,r))
    det=aa*cc-ac*ac; return ((cc*ar-ac*cr)/det, (aa*cr-ac*ar)/det)
bad=0; nq=0; t0=time.time()
for kind,deg,kw in [("P",1,{}),("DP",0,{}),("DP",1,{}),("P",1,{'segments':[0],'include_boundary_dofs':True}),("P",1,{'segments':[1],'include_boundary_dofs':True,'truncate_at_segment_edge':True})]:
    sp=b.function_space(g,kind,deg,**kw); bs=sp.barycentric_representation(); bg=bs.grid
    nd=sp.global_dof_count; c=[z3.Real(f'c{i}') for i in range(nd)]
    Tm=np.asarray(bs.dof_transformation.todense())
    bc=[sum(z3.RealVal(str(rat(Tm[r,j])))*c[j] for j in range(nd) if Tm[r,j]!=0) if np.any(Tm[r]) else z3.RealVal(0) for r in range(Tm.shape[0])]
    xi,eta=z3.Reals('xi eta')
    def shape(space, pt):
        x,y=pt
        return [1] if space.number_of_shape_functions==1 else [1-x-y, x, y]
    for el in sp.support_elements if False else range(g.number_of_elements):
        for j in range(6):
            be=6*el+j
            # physical vertices of bary element -> parent local coords (exact)
            lam=[solve_local(el,[rat(bg.vertices[d,bg.elements[k,be]]) for d in range(3)]) for k in range(3)]
            px=lam[0][0]+ (lam[1][0]-lam[0][0])*xi + (lam[2][0]-lam[0][0])*eta
            py=lam[0][1]+ (lam[1][1]-lam[0][1])*xi + (lam[2][1]-lam[0][1])*eta
            px=z3.RealVal(str(lam[0][0]))+z3.RealVal(str(lam[1][0]-lam[0][0]))*xi+z3.RealVal(str(lam[2][0]-lam[0][0]))*eta
            py=z3.RealVal(str(lam[0][1]))+z3.RealVal(str(lam[1][1]-lam[0][1]))*xi+z3.RealVal(str(lam[2][1]-lam[0][1]))*eta
            coarse=sum(z3.RealVal(str(rat(sp.local_multipliers[el,i])))*c[sp.local2global[el,i]]*s_ for i,s_ in enumerate(shape(sp,(px,py)))) if sp.support[el] else z3.RealVal(0)
            fine=sum(z3.RealVal(str(rat(float(bs.local_multipliers[be,i]))))*bc[bs.local2global[be,i]]*s_ for i,s_ in enumerate(shape(bs,(xi,eta)))) if bs.support[be] else z3.RealVal(0)
            s=z3.Solver(); s.add(coarse!=fine); r=s.check(); nq+=1
            if r!=z3.unsat: bad+=1; print('BAD',kind,deg,kw,el,j,s.model())
print('queries',nq,'bad',bad,round(time.time()-t0,2))
