import numpy as np
import bempp_cl.api as b
np.set_printoptions(precision=2)
v = np.array([[1,-1.3,0,0,0.2,0],[0,0,1.1,-1,0,0],[0,0,0.1,0,1.4,-0.8]])
e = np.array([[0,2,4],[2,1,4],[1,3,4],[3,0,4],[2,0,5],[1,2,5],[3,1,5],[0,3,5]]).T
g = b.Grid(v, e).refine()
b.GLOBAL_PARAMETERS.quadrature.regular=3; b.GLOBAL_PARAMETERS.quadrature.singular=3
p1=b.function_space(g,"P",1); dp0=b.function_space(g,"DP",0); dp1=b.function_space(g,"DP",1); rwg=b.function_space(g,"RWG",0); snc=b.function_space(g,"SNC",0)
B=b.operators.boundary; k=1.3+0.4j
def D(op): return op.weak_form().to_dense()
rel=lambda A,C: np.abs(A-C).max()/np.abs(A).max()
print('C05 conj: SL', rel(D(B.helmholtz.single_layer(p1,p1,p1,-np.conj(k))), np.conj(D(B.helmholtz.single_layer(p1,p1,p1,k)))),
      'DL', rel(D(B.helmholtz.double_layer(p1,p1,dp0,-np.conj(k))), np.conj(D(B.helmholtz.double_layer(p1,p1,dp0,k)))),
      'HYP', rel(D(B.helmholtz.hypersingular(p1,p1,p1,-np.conj(k))), np.conj(D(B.helmholtz.hypersingular(p1,p1,p1,k)))))
V=D(B.helmholtz.single_layer(p1,p1,p1,k)); W=D(B.helmholtz.hypersingular(p1,p1,p1,k))
print('C05 symmetry V', rel(V,V.T), 'W', rel(W,W.T))
DL=D(B.helmholtz.double_layer(p1,dp0,dp0,k)); ADL=D(B.helmholtz.adjoint_double_layer(dp0,p1,p1,k)); print('C05 ADL=DL^T', rel(ADL,DL.T))
# hypersingular decomposition numeric (helmholtz, modified)
NE=g.number_of_elements
def CN(space):
    C=[np.zeros((NE,space.global_dof_count)) for _ in range(3)]; N=[np.zeros((3*NE,space.global_dof_count)) for _ in range(3)]
    refgrad=np.array([[-1,1,0],[-1,0,1.]])
    for el in range(NE):
        sg=g.jacobian_inverse_transposed[el]@refgrad
        for a in range(3):
            j=space.local2global[el,a]; m=space.local_multipliers[el,a]
            curl=np.cross(g.normals[el], sg[:,a])
            for c in range(3):
                C[c][el,j]+=m*curl[c]; N[c][3*el+a,j]+=m*g.normals[el,c]
    return C,N
C,N=CN(p1)
for fam,kk,sgn in [('helmholtz',k,-1),('modified_helmholtz',0.9,+1),('laplace',None,0)]:
    M=getattr(B,fam); args=() if kk is None else (kk,)
    W=D(M.hypersingular(p1,p1,p1,*args)); V0=D(M.single_layer(dp0,dp0,dp0,*args)); V1=D(M.single_layer(dp1,dp1,dp1,*args))
    spec=sum(C[c].T@V0@C[c] for c in range(3)) + (0 if kk is None else sgn*kk*kk*sum(N[c].T@V1@N[c] for c in range(3)))
    print('C06 hypersingular decomposition',fam, rel(W,spec), ' row-sum(laplace only):', np.abs(W.sum(axis=1)).max() if kk is None else '')
E=D(B.maxwell.electric_field(rwg,rwg,snc,k)); Mf=D(B.maxwell.magnetic_field(rwg,rwg,snc,k))
print('C06 EFIE symmetric', rel(E,E.T), 'MFIE symmetric', rel(Mf,Mf.T), 'MFIE antisym?', rel(Mf,-Mf.T))
LB=D(B.sparse.laplace_beltrami(p1,p1,p1)); I=D(B.sparse.identity(p1,p1,p1))
print('C13 LB sym', rel(LB,LB.T), 'LB*1', np.abs(LB.sum(axis=1)).max(), 'mass sum vs area', I.sum(), g.volumes.sum(), 'min eig mass', np.linalg.eigvalsh(I).min(), 'min eig LB', np.linalg.eigvalsh(LB).min())
