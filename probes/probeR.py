import os, sys, types
os.environ['NUMBA_DISABLE_JIT']='1'
import numpy as np
import bempp_cl.api as b
from bempp_cl.api.utils.parameters import DefaultParameters
import bempp_cl.api.integration.triangle_gauss as tg, bempp_cl.api.integration.duffy_galerkin as dg, bempp_cl.api.integration.gauss as g1
class Tok(int):
    def __new__(cls, v, name): o=int.__new__(cls, v); o.name=name; return o
    def __repr__(s): return s.name
LOG=[]
def wrap(mod, fname, pos=0):
    f=getattr(mod,fname)
    def w(*a, **k):
        LOG.append((fname, getattr(a[pos],'name',int(a[pos]))))
        return f(*a, **k)
    setattr(mod,fname,w)
for m,fn in [(tg,'rule'),(tg,'get_number_of_quad_points'),(dg,'rule'),(dg,'number_of_quadrature_points')]: wrap(m,fn)
# fake exafmm with dense evaluation through bempp's own helper
ex = types.ModuleType('exafmm'); 
def mk(modname, cls):
    m = types.ModuleType(modname)
    m.init_sources=lambda p,c:('s',p); m.init_targets=lambda p:('t',p); setattr(m, cls, lambda *a,**k:'fmm'); m.setup=lambda s,t,f:{'s':s,'t':t}
    m.update_charges=lambda tree,vec:None; m.clear_values=lambda tree:None; m.evaluate=lambda tree,f:None
    return m
ex.laplace=mk('exafmm.laplace','LaplaceFmm'); sys.modules['exafmm']=ex; sys.modules['exafmm.laplace']=ex.laplace
b.GLOBAL_PARAMETERS.fmm.dense_evaluation=True
v = np.array([[0,1,0,0],[0,0,1,0],[0,0,0,1.]]); e = np.array([[0,0,0,1],[2,1,3,2],[1,3,2,3]])
g = b.Grid(v, e); p1=b.function_space(g,"P",1); dp0=b.function_space(g,"DP",0)
G=b.GLOBAL_PARAMETERS
G.quadrature.regular=Tok(3,'g_reg'); G.quadrature.singular=Tok(2,'g_sing')
P=DefaultParameters(); P.quadrature.regular=Tok(2,'p_reg'); P.quadrature.singular=Tok(1,'p_sing'); P.fmm.dense_evaluation=True
def show(title, fn):
    LOG.clear()
    try: fn(); print(title, sorted(set(LOG)))
    except Exception as ex: print(title, 'RAISES', type(ex).__name__, str(ex)[:100], sorted(set(LOG)))
L=b.operators.boundary.laplace; S=b.operators.boundary.sparse; Pt=b.operators.potential.laplace
show('dense explicit P', lambda: L.single_layer(p1,p1,p1,parameters=P).weak_form())
show('dense None', lambda: L.single_layer(p1,p1,p1).weak_form())
show('hyp explicit P', lambda: L.hypersingular(p1,p1,p1,parameters=P).weak_form())
show('sparse explicit P', lambda: S.identity(p1,p1,p1,parameters=P).weak_form())
show('strong form explicit P', lambda: L.single_layer(p1,p1,p1,parameters=P).strong_form())
pts=np.array([[2.],[0.3],[0.1]])
show('potential explicit P', lambda: Pt.single_layer(dp0,pts,parameters=P).evaluate(b.GridFunction(dp0,coefficients=np.ones(4))))
show('gridfun projections explicit P', lambda: b.GridFunction(p1,coefficients=np.ones(4),parameters=P).projections(p1))
show('gridfun integrate/l2norm explicit P', lambda: (b.GridFunction(p1,coefficients=np.ones(4),parameters=P).integrate(), b.GridFunction(p1,coefficients=np.ones(4),parameters=P).l2_norm()))
show('fmm explicit P', lambda: L.single_layer(p1,p1,p1,parameters=P,assembler='fmm').weak_form() @ np.ones(4))
show('fmm potential explicit P', lambda: Pt.single_layer(dp0,pts,parameters=P,assembler='fmm').evaluate(b.GridFunction(dp0,coefficients=np.ones(4))))
