# C13: identity operator == exact L2 products for every rule with the needed moments (symbolic rule)
from common_api import *
from math import factorial
Q=4
px=[z3.Real(f'px{q}') for q in range(Q)]; py=[z3.Real(f'py{q}') for q in range(Q)]; pw=[z3.Real(f'pw{q}') for q in range(Q)]
def symrule(order):
    pts=np.empty((2,Q),dtype=object); w=np.empty(Q,dtype=object)
    for q in range(Q): pts[0,q]=SR(px[q]); pts[1,q]=SR(py[q]); w[q]=SR(pw[q])
    return pts.view(SA), w.view(SA)
tg.rule=symrule
def I(a,b_): return z3.RealVal(str(Fraction(factorial(a)*factorial(b_), factorial(a+b_+2))))
def pwr(t,n):
    r=z3.RealVal(1)
    for _ in range(n): r=r*t
    return r
moments=[z3.Sum([pw[q]*pwr(px[q],a)*pwr(py[q],c) for q in range(Q)])==I(a,c) for a in range(3) for c in range(3-a)]
g=symgrid(TET_V,TET_E)
res={}
for kind,deg in [("DP",0),("P",1),("DP",1)]:
    sp=b.function_space(g,kind,deg)
    t=time.time()
    M=b.operators.boundary.sparse.identity(sp,sp,sp).weak_form().to_sparse().toarray()
    # exact: sum over elements ie_e * ref integral
    nd=sp.global_dof_count; spec=np.zeros((nd,nd),dtype=object)
    ref = {0:[[Fraction(1,2)]], 1:[[Fraction(1,12) if i==j else Fraction(1,24) for j in range(3)] for i in range(3)]}[deg]
    for el in range(4):
        for i in range(sp.number_of_shape_functions):
            for j in range(sp.number_of_shape_functions):
                spec[sp.local2global[el,i],sp.local2global[el,j]] = spec[sp.local2global[el,i],sp.local2global[el,j]] + g._integration_elements[el]*ref[i][j]*Fraction(float(sp.local_multipliers[el,i]*sp.local_multipliers[el,j]))
    s=z3.Solver(); s.add(moments); s.add(neq_any(M,spec)); dump(s,'ee.smt2','QF_NRA')
    print(kind,deg,'assembled',round(time.time()-t,2),'cvc5',cvc5('ee.smt2',120))
# twin: drop degree-2 moments -> P1 must become sat/unknown (not unsat)
s=z3.Solver(); s.add(moments[:3]); s.add(neq_any(M,spec)); dump(s,'ee2.smt2','QF_NRA'); print('twin (moments deg<=1 only)', cvc5('ee2.smt2',60))
print('--- per-entry with monomial abstraction (linearisation)')
cache={}
def linearise(e):
    e=z3.simplify(e, som=True, mul_to_power=False, flat=True, hoist_mul=False)
    def mono(t):
        cs=[]
        def flat(u):
            if z3.is_mul(u):
                for c in u.children(): flat(c)
            else: cs.append(u)
        flat(t)
        coeff=[c for c in cs if z3.is_rational_value(c)]; rest=[c for c in cs if not z3.is_rational_value(c)]
        if len(rest)<=1: return t
        assert all(z3.is_const(c) for c in rest), rest
        key=tuple(sorted(str(c) for c in rest)); v=cache.setdefault(key, z3.Real('m!'+'*'.join(key)))
        r=v
        for c in coeff: r=c*r
        return r
    def walk(t):
        if z3.is_mul(t): return mono(t)
        if z3.is_app(t) and t.num_args()>0: return t.decl()(*[walk(c) for c in t.children()])
        return t
    return walk(e)
for kind,deg in [("P",1),("DP",1)]:
    sp=b.function_space(g,kind,deg)
    M=b.operators.boundary.sparse.identity(sp,sp,sp).weak_form().to_sparse().toarray()
    nd=sp.global_dof_count; spec=np.zeros((nd,nd),dtype=object)
    ref=[[Fraction(1,12) if i==j else Fraction(1,24) for j in range(3)] for i in range(3)]
    for el in range(4):
        for i in range(3):
            for j in range(3):
                spec[sp.local2global[el,i],sp.local2global[el,j]] = spec[sp.local2global[el,i],sp.local2global[el,j]] + g._integration_elements[el]*ref[i][j]*Fraction(float(sp.local_multipliers[el,i]*sp.local_multipliers[el,j]))
    # strategy: divide out ie: compare per-element local matrices instead -> here just linearise whole thing with ie as extra factor
    t=time.time(); res=[]
    # multiply moment equations by each ie symbol to make them usable after linearisation
    ies=[g._integration_elements[e_].t for e_ in range(4)]
    hyps=[linearise(z3.simplify(ie_*(mo.arg(0))==ie_*(mo.arg(1)))) if False else None for ie_ in ies for mo in moments]
    hyps=[]
    for ie_ in ies:
        for mo in moments:
            hyps.append(linearise(ie_*mo.arg(0)) == linearise(ie_*mo.arg(1)))
    for i in range(nd):
        for j in range(nd):
            s=z3.Solver(); s.add(hyps); s.add(linearise(T(M[i,j])) != linearise(T(spec[i,j])))
            res.append(str(s.check()))
    from collections import Counter
    print(kind,deg,Counter(res),round(time.time()-t,2),'monomials',len(cache))
