import numpy as np
import bempp_cl.api as b
from bempp_cl.api.integration.triangle_gauss import rule
v = np.array([[0,1,0,0],[0,0,1,0],[0,0,0,1.]]); e = np.array([[0,0,0,1],[2,1,3,2],[1,3,2,3]])
g=b.Grid(v,e); dp0=b.function_space(g,"DP",0)
b.GLOBAL_PARAMETERS.quadrature.regular=4
f=b.GridFunction(dp0,coefficients=np.array([1.,2,3,4]))
d=np.array([[1.,0,0],[0,0.6,0.8]]).T
pts,w=rule(4)
for k in (2.0, 2.0+0.3j):
    lib=b.operators.far_field.helmholtz.single_layer(dp0,d,k).evaluate(f)
    spec=np.zeros(2,dtype=complex)
    for el in range(4):
        V0=g.vertices[:,g.elements[0,el]]; J=g.jacobians[el]
        Y=V0[:,None]+J@pts
        for p in range(2):
            spec[p]+=f.coefficients[el]*g.integration_elements[el]*np.sum(w*np.exp(-1j*k*(d[:,p]@Y)))/(4*np.pi)
    # limit check against potential
    r=2000.
    pot=b.operators.potential.helmholtz.single_layer(dp0,r*d,k).evaluate(f)[0]*r*np.exp(-1j*k*r)
    print('k=',k,'\n lib ',lib[0],'\n spec',spec,'\n r e^{-ikr} pot(r x)',pot)
