import z3, time
a = [z3.Real(f'a{i}') for i in range(3)]; b = [z3.Real(f'b{i}') for i in range(3)]
def dot(u,v): return sum(x*y for x,y in zip(u,v))
def cross(u,v): return [u[1]*v[2]-u[2]*v[1], u[2]*v[0]-u[0]*v[2], u[0]*v[1]-u[1]*v[0]]
c = cross(a,b)
g11, g12, g22 = dot(a,a), dot(a,b), dot(b,b)
det = g11*g22 - g12*g12
r1 = z3.Real('r1'); r2 = z3.Real('r2')
base = [r1>=0, r1*r1 == dot(c,c), r2>=0, r2*r2 == det, dot(c,c) > 0]
def chk(name, neg, extra=[]):
    s = z3.Solver(); s.set('timeout', 60000); s.add(base+extra); s.add(neg)
    t=time.time(); r = s.check(); print(name, r, round(time.time()-t,3))
chk('ie==|cross|', r1 != r2)
n = [ci/r1 for ci in c]
chk('unit normal', dot(n,n) != 1)
# jac inv trans: J*Ginv ; J columns a,b ; Ginv = 1/det [[g22,-g12],[-g12,g11]]
Jit0 = [(a[i]*g22 - b[i]*g12)/det for i in range(3)]
Jit1 = [(-a[i]*g12 + b[i]*g11)/det for i in range(3)]
chk('J^T Jit = I', z3.Or(dot(a,Jit0)!=1, dot(b,Jit0)!=0, dot(a,Jit1)!=0, dot(b,Jit1)!=1))
chk('n orth a', dot(n,a) != 0)
# right handed: n . (a x b) > 0
chk('right-handed', dot(n,c) <= 0)
# rotation invariance of distance: R^T R = I
R = [[z3.Real(f'R{i}{j}') for j in range(3)] for i in range(3)]
orth = [sum(R[k][i]*R[k][j] for k in range(3)) == (1 if i==j else 0) for i in range(3) for j in range(i,3)]
Ra = [sum(R[i][j]*a[j] for j in range(3)) for i in range(3)]
s = z3.Solver(); s.set('timeout', 60000); s.add(orth); s.add(dot(Ra,Ra) != dot(a,a))
t=time.time(); print('rot inv', s.check(), round(time.time()-t,3))
Rb = [sum(R[i][j]*b[j] for j in range(3)) for i in range(3)]
s = z3.Solver(); s.set('timeout', 60000); s.add(orth); s.add(dot(Ra,Rb) != dot(a,b))
t=time.time(); print('rot inv dot', s.check(), round(time.time()-t,3))
