import numpy as np
import bempp_cl.api as b
# octahedron-ish non-uniform mesh
v = np.array([[1,-1.3,0,0,0.2,0],[0,0,1.1,-1,0,0],[0,0,0.1,0,1.4,-0.8]])
e = np.array([[0,2,4],[2,1,4],[1,3,4],[3,0,4],[2,0,5],[1,2,5],[3,1,5],[0,3,5]]).T
g = b.Grid(v, e, np.array([0,0,1,1,0,0,1,1],dtype='uint32'))
b.GLOBAL_PARAMETERS.quadrature.regular=4
rwg = b.function_space(g,"RWG",0); p1=b.function_space(g,"P",1)
rng=np.random.RandomState(0)
c = rng.rand(rwg.global_dof_count)
f = b.GridFunction(rwg, coefficients=c)
# direct quadrature of the vector function
from bempp_cl.api.integration.triangle_gauss import rule
pts,w = rule(4)
tot=np.zeros(3)
for el in range(g.number_of_elements):
    vals = f.evaluate(el, pts)   # 3 x npts
    tot += (vals*w).sum(axis=1)*g.integration_elements[el]
print('integrate()', f.integrate(), 'direct', tot)
# P1 sanity
fp = b.GridFunction(p1, coefficients=rng.rand(p1.global_dof_count))
tot=0
for el in range(g.number_of_elements):
    tot += (fp.evaluate(el,pts)*w).sum()*g.integration_elements[el]
print('P1 integrate', fp.integrate(), tot)
# Multiplication operator on a segment
from bempp_cl.api.assembly.boundary_operator import MultiplicationOperator
dp0s = b.function_space(g,"DP",0,segments=[1]); dp0 = b.function_space(g,"DP",0)
gf = b.GridFunction(dp0, coefficients=np.ones(8))
M = MultiplicationOperator(gf, dp0s, dp0s, dp0s).weak_form().to_dense()
print('mult diag', np.diag(M)); print('areas of segment elems', g.volumes[dp0s.support_elements])
try:
    MultiplicationOperator(gf, dp0, dp0, dp0, mode='inner').weak_form()
    print('inner ok')
except Exception as ex: print('inner mode:', type(ex).__name__, ex)
# potential operator algebra
pts3 = np.array([[2.],[0.3],[0.1]])
S = b.operators.potential.laplace.single_layer(dp0, pts3); D = b.operators.potential.laplace.double_layer(p1, pts3)
S2 = b.operators.potential.laplace.single_layer(dp0, pts3)
for name,fn in [('S+S2', lambda: S+S2), ('2*S', lambda: (2*S).evaluate(gf)), ('(2*S).evaluation_points', lambda: (2*S).evaluation_points), ('S-S2', lambda: S-S2), ('-S', lambda: (-S).evaluate(gf))]:
    try: r=fn(); print(name,'ok', getattr(r,'shape',type(r)))
    except Exception as ex: print(name, 'RAISES', type(ex).__name__, ex)
