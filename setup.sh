#!/bin/sh
# Build the overlay venv (offline): /venv's packages + z3-solver + cvc5 from the wheelhouse.
set -e
cd "$(dirname "$0")"
V=/verif/.venv
if [ -x $V/bin/python ] && $V/bin/python -c "import z3, cvc5, numpy, numba" 2>/dev/null; then
  exit 0
fi
rm -rf $V
/venv/bin/python -m venv $V
SP=$($V/bin/python -c "import sysconfig; print(sysconfig.get_paths()['purelib'])")
echo "import site; site.addsitedir('/venv/lib/python3.12/site-packages')" > $SP/_base.pth
PIP_NO_INDEX=1 $V/bin/pip install -q --no-index --find-links /opt/veriftools/wheels z3-solver cvc5 jsonschema >/dev/null
$V/bin/python -c "import z3, cvc5, numpy, numba; print('overlay ok', z3.get_version_string())"
