"""Regenerate /verif/MANIFEST.json from the table below (python -m vf.mkmanifest)."""
import json
import os

ROOT = os.path.dirname(os.path.dirname(os.path.abspath(__file__)))
NOTE = ("Trusted base: z3 5.1 and cvc5 1.4 (an answer counts only if no other engine contradicts it); CPython executing the repository's "
        "source under NUMBA_DISABLE_JIT=1 has the real-number semantics of the Numba build (spot-checked per run by concrete JIT replays); "
        "floats are modelled as reals; the stubs listed in the evidence file (NumPy/SciPy shims, contract stubs) behave as documented.")

CHECKS = {
    "C04": dict(cat="translation_validation", tech="symbolic execution of the real assembler (public API) on free geometry with an uninterpreted kernel; entrywise polynomial identities with UFs decided by cvc5/z3",
                text="Two paths through the real code (operator on the subspace vs T' A_loc T with the operator on the element-wise full-grid space) are proved equal entry by entry for every geometry and kernel value, on base meshes of <= 6 (8) elements, regular order <= 2 (3), singular order 1 (2), for P1/DP0/DP1/RWG/SNC spaces with segment, support-element and boundary-dof options and scalar, hypersingular and Maxwell operators.",
                ref="3/C04"),
    "C03": dict(cat="other", tech="symbolic execution of the real kernel functions, Grid._compute_geometric_quantities, the dense regular/singular assemblers and the singular-rule remap tables (uninterpreted kernel, free geometry, symbolic one-point rule); QF_NRA queries with abstracted sqrt/exp/cos/sin and lemma chaining (rigid motion => invariants => kernel equality), entrywise polynomial identities (z3/cvc5)",
                text="Bounded symbolic verification: every regular Laplace/Helmholtz/modified Helmholtz kernel is invariant under ALL rigid motions (unit quaternion + translation) and homogeneous under ALL scalings with k -> k/s; geometry arrays obey the translation/scaling laws for every triangle; assembled matrices (regular + singular parts) are permuted term for term by a renumbering of vertices and elements (meshes of 4-7 elements, every geometry and kernel value); the singular-rule remap pairs the same physical point for all 36+36 local vertex orders (edge) and shared-vertex positions; a swapped-normals flag equals a negated normal field. Equality of singular parts under local vertex rotation holds only up to quadrature error and is outside the claim.",
                ref="3/C03"),
    "C05": dict(cat="other", tech="symbolic execution of the real Helmholtz / modified Helmholtz / Laplace kernel functions (regular, singular, far-field, FMM helper) and of the constructors' wavenumber dispatch; QF_NRA queries with abstracted sqrt/exp/cos/sin + congruence/parity lemmas; forward-mode jets for the first-order term in k (z3/cvc5)",
                text="Bounded symbolic verification at kernel level for ALL real points, normals and wavenumbers: Helmholtz(0,w) == modified Helmholtz(w) kernels and the constructors' dispatch for k = i*w (boundary and potential), K(-conj k) == conj K(k), single-layer symmetry and ADL(x,y) == DL(y,x), singular == regular variants, and d/dk at k=0 of the Helmholtz kernels (i/4pi resp. 0). The remainder bounds and the symmetry of assembled singular parts are outside the claim. One genuine defect was repaired.",
                ref="3/C05"),
    "C06": dict(cat="translation_validation", tech="symbolic execution of the hypersingular / Maxwell / single-layer assemblers through the public API with an uninterpreted kernel and symbolic complex wavenumber; entrywise polynomial identities (cvc5/z3)",
                text="The decomposition identities W = sum C'V0C - k^2 sum N'V1N (Laplace, Helmholtz, modified Helmholtz) and E = -ik sum R'V1R - (1/ik) D'V0D are proved entry by entry (regular + singular parts) for every geometry, kernel value and wavenumber on base meshes of <= 6 (8) elements; W.1 = 0 on closed meshes; symmetry of the non-adjacent EFIE block under a symmetric kernel.",
                ref="3/C06"),
    "C07": dict(cat="translation_validation", tech="symbolic execution of the dense boundary assembler and of the potential assembler with one uninterpreted kernel on free geometry; entrywise polynomial identities with UFs (cvc5/z3)",
                text="Boundary matrices between two disjoint grids (single and double layer; Laplace, Helmholtz, modified Helmholtz) are proved equal, entry by entry and for every geometry / kernel value, to the potential of each trial basis function evaluated at map_to_point_cloud's points and tested by quadrature, on 1-2 x 1-2 element grids (4-5 thorough), orders 1-2 (3).",
                ref="3/C07"),
    "C08": dict(cat="other", tech="symbolic execution of the real potential / far-field kernel functions (values and second-order forward-mode jets with respect to the evaluation point) and of the potential assemblers through the public API (uninterpreted Green's function, free geometry, symbolic points, complex densities and wavenumber); QF_NRA queries with abstracted sqrt/exp/cos/sin + congruence and angle-addition lemma instances (z3/cvc5)",
                text="Bounded symbolic verification: all 8 potential / far-field kernels equal independently written closed forms for all points, normals and complex wavenumbers; the real kernel code satisfies Laplace / Helmholtz / modified Helmholtz equations exactly (jets); Maxwell potential assemblers satisfy curl E = ik H and div H = 0 per quadrature point, and the hard-coded gradient factor equals the gradient of the real kernel; scalar and Maxwell potential / far-field assemblers equal the textbook quadrature sums on meshes of 2-6 elements for every geometry, density and evaluation point; far-field translation phase law for real k. The r -> infinity limit, curl H = -ik E and div E = 0 (true only up to quadrature error) are outside the solver claim and validated numerically. One defect repaired (far-field kernels ignored Im k).",
                ref="3/C08"),
    "C09": dict(cat="other", tech="symbolic execution of the real space constructors over a symbolic support mask and symbolic option flags (all constructor paths, z3 LIA counting formulas) and of space.evaluate / GridFunction.evaluate with symbolic vertex coordinates and local points (polynomial identities, z3/cvc5)",
                text="Bounded symbolic verification: P1 values, RWG normal and SNC tangential components are continuous across a shared edge for all 18 consistently oriented local numberings, all vertex coordinates and every point of the edge; DP0/P1/DUAL0/DUAL1 bases sum to one at every point of every (barycentric) element of a closed mesh and the dual functions take their documented nodal values; on every path of the P1/RWG/SNC/DP0/DP1 constructors over all support masks x option flags on meshes of 4-6 (8) elements the dof count equals an independent counting formula and local2global/global2local are mutually inverse with one entity per dof. BC/RBC conformity on closed meshes through the coefficient-table condition. Two defects repaired (DUAL1 barycentre dofs, DUAL0 truncated at the segment edge); known findings: empty spaces report one dof (P1/RWG/SNC), SNC with normals swapped on one side of an interface, BC/RBC on a segment.",
                ref="3/C09"),
    "C10": dict(cat="other", tech="symbolic execution of GridFunction.evaluate on a space and on its barycentric representation (symbolic coefficients, symbolic local point; RWG/SNC with symbolic vertex coordinates, sqrt atoms related by solver-proved scaling lemmas) and of the sparse identity assembler under a symbolic quadrature rule constrained by its moment equations (LRA after monomial abstraction); z3/cvc5",
                text="Bounded symbolic verification: for DP0/P1 (meshes of 4 elements incl. segment spaces) and RWG/SNC (2-4 elements, every vertex position, incl. a segment space whose support does not start at element 0) the barycentric representation agrees with the original function at every point of each of the 6 sub-triangles for every coefficient vector; DUAL0/DUAL1 functions take their documented nodal values on closed meshes; P1 x DUAL0, DP0 x DUAL1 and P1 x DUAL1 mass matrices equal the exact integrals of the product of the bases for every quadrature rule exact to the product degree. BC/RBC are outside the claim. One defect repaired (P1 barycentric tables).",
                ref="3/C10"),
    "C11": dict(cat="other", tech="path exploration of the topology routines with symbolic unbounded vertex ids (z3 LIA) + symbolic execution of geometry/refinement with symbolic coordinates (NRA with sqrt atoms, z3/cvc5)",
                text="Bounded symbolic verification: shared-edge/vertex detection, adjacency rows, element-to-element counts and edge enumeration are decided for EVERY vertex numbering of two (three for counts, thorough) elements; geometric quantities for every non-degenerate triangle; refinement/barycentric children have 1/4 resp. 1/6 of the parent's oriented area for all vertex coordinates; derived tables of 8 base meshes are cross-checked concretely (auxiliary).",
                ref="3/C11"),
    "C12": dict(cat="other", tech="symbolic execution of the rule constructors (z3 terms) + SMT (LIA path exploration for unbounded orders, LRA over all polynomials with symbolic coefficients, NRA for Duffy region maps)",
                text="Bounded symbolic verification: lookups decided for every integer order (all paths of the real lookup code), exactness decided for every polynomial of the stated degree for all 20 triangle / 30 Gauss orders and Duffy orders 2..5 (7 thorough; exact integer moments, LRA claim decided in blocks of 40 coefficients), region maps for all 1-D nodes in (0,1), remaps for every point. unsat = holds for all values within these bounds.",
                ref="3/C12"),
    "C13": dict(cat="other", tech="symbolic execution of the sparse assembler and GridFunction routines on free geometry; identities under a symbolic quadrature rule with moment hypotheses decided in LRA after sound monomial abstraction (z3/cvc5)",
                text="Bounded symbolic verification: identity matrices (DP0/P1/DP1/RWG/SNC pairs, with segments) and Laplace-Beltrami equal the closed-form exact integrals for EVERY quadrature rule satisfying the moment equations of the needed degree; integrate, l2_norm, evaluate_on_element_centers, evaluate_on_vertices, projections, MultiplicationOperator (component and inner mode) and the projections of jit-style and vectorised callables (uninterpreted functions of point, normal and domain index, on segment spaces) equal a harness-written direct quadrature for all coefficients and geometry values, on meshes of <= 6 elements. Recovery of exact coefficients from the projections needs the mass solve (C15). Three defects repaired.",
                ref="3/C13"),
    "C14": dict(cat="other", tech="symbolic execution of the operator-algebra classes on symbolic matrices / scalars / vectors for enumerated expression trees (programs); polynomial identities decided by z3/cvc5; exact-rational LAPACK contract stub for the mass solve",
                text="Bounded symbolic verification over programs: every well-typed expression tree of depth 1 over 4 leaf operators (dense, sparse, generic; real and complex) and 8 operations, and a seeded sample of depth-2 trees (all of them in the thorough tier), evaluates - via to_dense, matvec, matmat, application to grid functions and strong_form - to the matrix expression for ALL matrix entries, scalars and vectors; ill-typed trees must raise; likewise potential-operator sums/scalings, 2x2 blocked operators, grid-function arithmetic and real single-precision leaves applied to complex operands (values; dtype preservation is outside the claim). Two genuine defects were repaired.",
                ref="3/C14"),
    "C15": dict(cat="other", tech="symbolic execution of the solver wrappers against contract stubs of scipy.linalg.solve/lu_factor/lu_solve and scipy.sparse.linalg.gmres/cg; wiring claims as polynomial identities, lu(A,A*f)=f in LRA after monomial abstraction (z3/cvc5)",
                text="Bounded symbolic verification of the solver wrappers: for symbolic 2x2/4x4 (blocked: 6x6) real and complex operators the system handed to SciPy is exactly (weak form, projections) or (strong form, coefficients), the solution is unpacked over the domain spaces in order with the right lengths, lu(A, A*f) = f for every invertible matrix (also with precomputed factors), and iteration counts / residual lists are those of the callback calls. Convergence and info==0 are SciPy's and are outside the claim. One genuine defect was repaired.",
                ref="3/C15"),
    "C16": dict(cat="other", tech="two-symbolic-iteration execution of every prange loop (index inputs as uninterpreted functions, shared arrays recording accesses) with LIA+UF conflict queries; path exploration of the colouring code over a symbolic local2global table (z3/cvc5)",
                text="Bounded symbolic verification of race freedom: for all 21 parallel functions found by AST scan, no two iterations (unbounded iteration numbers / element indices) access the same cell with a write - for the regular assemblers under the colouring invariant, which is itself decided for every local2global table of 3 elements x 2 (3) local dofs; constructors are swept concretely (auxiliary). Bitwise thread-count independence then follows because each iteration is sequential and deterministic.",
                ref="3/C16"),
    "C17": dict(cat="translation_validation", tech="symbolic execution of the FMM glue (fmm_assembler, exafmm interface, near-field helpers, map_to_points) with a fake exact-summation exafmm and an uninterpreted kernel family vs the dense assembler; polynomial identities with UFs (cvc5/z3) + NRA kernel lemmas",
                text="For a symbolic vector and free geometry the FMM-mode matvec equals the dense-mode matvec row by row for scalar, hypersingular, Maxwell electric-field and Maxwell magnetic-field operators (whole-grid, boundary-dof and segment spaces, one and two grids), scalar potentials and both Maxwell potentials, with the far field replaced by exact summation (both through a fake exafmm and through the library's own dense_evaluation switch); the kernel relations used to couple both paths are proved for the real kernels.",
                ref="3/C17"),
    "C18": dict(cat="model_checking", tech="bounded exploration of API-call histories on the real code with symbolic parameter tokens; per history an LIA validity query (z3/cvc5) that every quadrature/FMM setting reaching the numerics is the operator's own",
                text="All histories of <= 2 (3 thorough) events from 7 kinds x 2 placements of the operator's creation x 10 observed operation kinds (dense, sparse, potential, grid function, FMM, and the Helmholtz constructors with an imaginary wavenumber that forward to modified Helmholtz; 1130 histories quick) are executed; for each the solver decides, for ALL parameter values, whether a setting other than the explicit parameter object's can reach a rule lookup or a cached FMM interface. Two genuine defects surfaced: one repaired (FMM ignored explicit parameters), one listed as a known finding (grid-function projections use the space-cached, globally parameterised mass matrix).",
                ref="3/C18"),
    "C19": dict(cat="other", tech="path exploration of io.export / io.import_grid with symbolic domain indices (z3 LIA) and symbolic coefficients (polynomial / NRA claims), meshio as an in-memory contract stub; replays through real meshio files",
                text="Bounded symbolic verification: for 3 elements with arbitrary domain indices in [0,2^31) every path of the Gmsh tag logic is explored (ASCII and binary) and the imported indices, vertices and elements are proved equal to the exported ones; exported node/element data equal the requested transformation of evaluate_on_vertices / evaluate_on_element_centers for all real/complex coefficients (7 transformations). One genuine defect is listed as a known finding (all-zero indices), one was repaired.",
                ref="3/C19"),
    "C20": dict(cat="translation_validation", tech="LLVM-IR (clang on the current OpenCL headers) symbolic interpreter vs symbolic execution of the Numba kernels; per-lane equivalence queries in QF_NRA with abstracted sqrt/exp/cos/sin + congruence (z3/cvc5)",
                text="Translation validation of two hand translations of the same formulas: every OpenCL kernel variant (14 kernels x 4 widths x 2 precisions) and the 4 shapeset headers are proved equal, lane by lane and path by path, to the Numba function the selection tables pair them with, for all real inputs with distinct points.",
                ref="3/C20"),
}
NA = {
    "C01": "a convergence statement about floating-point quadrature of singular kernels (exists order, for all meshes, 1e4-1e6 sqrt atoms per instance): no bounded SMT encoding within reach; its algebraic ingredients are decided under the other properties (DESIGN.md 3/C01)",
    "C02": "the representation formula holds only in the exact-integration limit and the property is the size of the quadrature error (same reason as C01; DESIGN.md 3/C02)",
}
PENDING = "check not built yet in this revision (planned, see DESIGN.md section 3)"
ALL = ["C%02d" % i for i in range(1, 21)]


def main():
    checks = []
    for pid in ALL:
        if pid not in CHECKS:
            continue
        c = CHECKS[pid]
        checks.append({
            "property_id": pid,
            "quick_cmd": "./vf/check %s --tier quick" % pid,
            "thorough_cmd": "./vf/check %s --tier thorough" % pid,
            "evidence_file": "/verif/evidence/%s.json" % pid,
            "replay_cmd_template": "./vf/check %s --replay {path}" % pid,
            "engine": "symx",
            "level_claimed": {"category": c["cat"], "text": c["text"], "design_ref": c["ref"]},
            "level_note": NOTE,
            "technique": c["tech"],
        })
    na = [{"property_id": p, "reason": NA.get(p, PENDING)} for p in ALL if p not in CHECKS]
    m = {
        "version": 1,
        "setup_cmd": "./setup.sh",
        "hooks": {"guard": "BEMPP_CL_VERIF", "enable": "none needed: the checks load /repo's current source through an in-process import hook (vf/hook.py); no file under /repo is instrumented", "baseline_off_cmd": "cd /repo && /venv/bin/python -m pytest -ra -q -p no:cacheprovider --timeout=900 --continue-on-collection-errors", "source_commits": [], "add_only": True},
        "engines": [{"name": "symx", "path": "/verif/vf", "serves_properties": [c["property_id"] for c in checks], "kind_free_text": "symbolic execution of the real Python source over z3 terms (NumPy object arrays of proxies, path exploration by re-execution), LLVM-IR interpreter for the OpenCL headers, z3+cvc5 portfolio, concrete JIT replay"}],
        "checks": checks,
        "not_applicable": na,
        "notes": "Exit codes: 0 held, 1 violation (replayed on the JIT build), 2 inconclusive / harness error. Known findings: /verif/known_findings.json.",
    }
    with open(os.path.join(ROOT, "MANIFEST.json"), "w") as f:
        json.dump(m, f, indent=1)
    print("MANIFEST.json: %d checks, %d not_applicable" % (len(checks), len(na)))


if __name__ == "__main__":
    main()
