"""python -m vf.concrete <ID> <jobs.json>: run module.concrete(family, params) for each job with the
real build (Numba JIT enabled, real NumPy/SciPy/meshio). Prints one line CONCRETE-RESULTS <json>."""
import importlib
import json
import sys
import traceback


def main():
    pid, path = sys.argv[1], sys.argv[2]
    jobs = json.load(open(path))
    mod = importlib.import_module("vf.props." + pid.lower())
    out = []
    for j in jobs:
        try:
            r = mod.concrete(j["family"], j["params"])
        except Exception as e:
            r = {"error": "%s: %s\n%s" % (type(e).__name__, e, traceback.format_exc()[-800:])}
        out.append(r)
    print("CONCRETE-RESULTS " + json.dumps(out, default=str))


if __name__ == "__main__":
    main()
