"""python -m vf.concrete <ID> <jobs.json>: run module.concrete(family, params) for each job with the
real build (Numba JIT enabled, real NumPy/SciPy/meshio). Prints one line CONCRETE-RESULTS <json>."""
import importlib
import json
import sys
import traceback


def main():
    pid, path = sys.argv[1], sys.argv[2]
    jobs = json.load(open(path))
    mod = importlib.import_module("vf.props." + pid.lower())
    out = []
    hit = set()
    for j in jobs:
        grp = j.get("group")
        if grp is not None and grp in hit:
            # a counterexample of this group already reproduced in this run: further candidates of the same
            # group are the same finding and are not replayed again
            out.append({"skipped_same_group": grp, "gap": 0.0})
            continue
        try:
            r = mod.concrete(j["family"], j["params"])
        except Exception as e:
            r = {"error": "%s: %s\n%s" % (type(e).__name__, e, traceback.format_exc()[-800:])}
        if grp is not None and r.get("gap", 0.0) > 1e-8:
            hit.add(grp)
        out.append(r)
    print("CONCRETE-RESULTS " + json.dumps(out, default=str))


if __name__ == "__main__":
    main()
