"""Check driver: obligations -> solver portfolio -> replay of counterexamples on the real (JIT) build ->
evidence file / VIOLATION / KNOWN-FINDING lines and exit code."""
import hashlib
import json
import os
import subprocess
import sys
import time
import z3
from . import solve
from .sym import ABS

ROOT = os.path.dirname(os.path.dirname(os.path.abspath(__file__)))
REPO = os.environ.get("VF_REPO", "/repo")
GAP = 1e-8


class Ob:
    def __init__(self, name, kind, smt2, family=None, params=None, group=None, desc=None):
        self.name = name
        self.kind = kind  # 'prove' (expect unsat) | 'witness' | 'twin' (expect sat)
        self.smt2 = smt2
        self.family = family
        self.params = params
        self.group = group or name.split("/")[0]
        self.desc = desc
        self.smt2_hint = None


class Ctx:
    def __init__(self, pid, tier, seed):
        self.pid = pid
        self.tier = tier
        self.seed = seed
        self.t0 = time.time()
        self.obs = []
        self.concrete_jobs = []  # (name, family, params)
        self.bounds = {}
        self.assumptions = []
        self.outside = []
        self.stubs = []
        self.notes = []
        self.paths = 0
        self.exhaustive_paths = True
        self.direct_violations = []  # (name, family, params, what) found without a solver query (e.g. exception raised)
        self.samples = []
        self.inconclusive = []
        self.encode_secs = {}

    @property
    def thorough(self):
        return self.tier == "thorough"

    def log(self, *a):
        print("[%s %6.1fs]" % (self.pid, time.time() - self.t0), *a, flush=True)

    # ---- obligations
    def _text(self, formulas):
        s = z3.Solver()
        for f in formulas:
            s.add(f)
        return s.to_smt2()

    def prove(self, name, claim, hyps=(), family=None, params=None, abs_cons=True, group=None, desc=None, congruence=True):
        fs = list(hyps)
        if abs_cons == "cone":
            fs += ABS.cons_for(list(hyps) + [claim], congruence)
        elif abs_cons:
            fs += ABS.all_cons(congruence)
        fs.append(z3.Not(claim))
        ob = Ob(name, "prove", self._text(fs), family, params, group, desc)
        if abs_cons:
            # hint query for the ground-instantiation engine: abstraction atoms as free reals (a model is only a
            # candidate and must reproduce in the concrete replay)
            ob.smt2_hint = self._text(list(hyps) + [z3.Not(claim)])
        self.obs.append(ob)
        return ob

    def expect_sat(self, name, formulas, kind="witness", abs_cons=True, group=None, desc=None, congruence=True):
        fs = list(formulas)
        if abs_cons == "cone":
            fs += ABS.cons_for(list(formulas), congruence)
        elif abs_cons:
            fs += ABS.all_cons(congruence)
        ob = Ob(name, kind, self._text(fs), None, None, group, desc)
        self.obs.append(ob)
        return ob

    def twin(self, name, wrong_claim, hyps=(), abs_cons=True, congruence=True):
        """negative twin: a deliberately wrong claim whose negation must be satisfiable."""
        ob = self.prove(name, wrong_claim, hyps, abs_cons=abs_cons, group="twin", congruence=congruence)
        ob.kind = "twin"
        return ob

    def concrete(self, name, family, params):
        self.concrete_jobs.append((name, family, params))

    def violation(self, name, family, params, what):
        """a violation established on a symbolic path without a residual query (e.g. the code raised
        on a feasible path); still replayed before being reported."""
        self.direct_violations.append((name, family, params, what))
        self.log("candidate (no residual query): %s: %s" % (name, str(what)[:300]))

    def bound(self, k, v):
        self.bounds[k] = v

    def assume(self, s):
        if s not in self.assumptions:
            self.assumptions.append(s)

    def out(self, s):
        if s not in self.outside:
            self.outside.append(s)

    def stub(self, s):
        if s not in self.stubs:
            self.stubs.append(s)

    def sample(self, s):
        if len(self.samples) < 6:
            self.samples.append(s)


# ----------------------------------------------------------------------------- concrete side
def run_concrete(pid, jobs, timeout=2400, groups=None):
    """run module.concrete(family, params) for each job in a fresh interpreter with Numba JIT enabled.
    returns list of result dicts (or {'error':...})."""
    if not jobs:
        return []
    os.makedirs(os.path.join(ROOT, "scratch"), exist_ok=True)
    path = os.path.join(ROOT, "scratch", "concrete-%s-%d.json" % (pid, os.getpid()))
    with open(path, "w") as f:
        json.dump([{"name": n, "family": fa, "params": p, "group": (groups or {}).get(n)} for n, fa, p in jobs], f)
    env = dict(os.environ)
    env.pop("NUMBA_DISABLE_JIT", None)
    env["NUMBA_CACHE_DIR"] = os.path.join(ROOT, "scratch", "numba_cache")
    env["PYTHONPATH"] = ROOT + os.pathsep + REPO
    env["PYTHONDONTWRITEBYTECODE"] = "1"
    try:
        p = subprocess.run([sys.executable, "-m", "vf.concrete", pid, path], capture_output=True, text=True, timeout=timeout, env=env, cwd=ROOT)
    except subprocess.TimeoutExpired:
        return [{"error": "concrete run timed out"} for _ in jobs]
    finally:
        pass
    try:
        os.unlink(path)
    except OSError:
        pass
    out = None
    for line in p.stdout.splitlines():
        if line.startswith("CONCRETE-RESULTS "):
            out = json.loads(line[len("CONCRETE-RESULTS "):])
    if out is None:
        return [{"error": "concrete run failed: " + (p.stderr or p.stdout)[-1500:]} for _ in jobs]
    return out


def start_concrete_bg(pid, jobs):
    """same, but in the background; returns a handle with .wait()."""
    import threading

    box = {}

    def work():
        box["r"] = run_concrete(pid, jobs)

    th = threading.Thread(target=work, daemon=True)
    th.start()

    class H:
        def wait(self):
            th.join()
            return box.get("r", [])

    return H()


def model_float(v, default=None):
    """z3/cvc5 model value string -> float ('-3/2', '0.25', '(- 1.5)', '1.41?' ...)."""
    if v is None:
        return default
    t = str(v).replace("?", "").replace("(", " ").replace(")", " ").split()
    try:
        neg = False
        if t and t[0] == "-":
            neg = True
            t = t[1:]
        if len(t) == 3 and t[0] == "/":
            x = float(t[1]) / float(t[2])
        elif len(t) == 1 and "/" in t[0]:
            a, b = t[0].split("/")
            x = float(a) / float(b)
        else:
            x = float(t[0])
        return -x if neg else x
    except (ValueError, IndexError, ZeroDivisionError):
        return default


def load_known():
    path = os.path.join(ROOT, "known_findings.json")
    if not os.path.exists(path):
        return []
    return json.load(open(path)).get("findings", [])


def finish(ctx, module):
    """solve, replay, write evidence, print verdict lines; returns exit code."""
    pid = ctx.pid
    # concrete validation runs while the solvers work
    bg = start_concrete_bg(pid, ctx.concrete_jobs) if ctx.concrete_jobs else None
    t_s = time.time()
    rounds = getattr(module, "ROUNDS", None)
    kw = {}
    if rounds:
        kw["rounds"] = rounds[ctx.tier] if isinstance(rounds, dict) else rounds
    ctx.log("solving %d obligations" % len(ctx.obs))
    solve.solve_all(ctx.obs, seed=ctx.seed, log=ctx.log, **kw)
    solver_wall = time.time() - t_s
    conc = bg.wait() if bg else []
    solve.close_pool()

    inconclusive = list(ctx.inconclusive)
    candidates = []  # (ob name, family, params, model, what)
    nprove = ndis = 0
    by_solver = {}
    max_secs = 0.0
    tot_secs = 0.0
    for ob in ctx.obs:
        for eng, v in ob.by.items():
            by_solver.setdefault(eng, {}).setdefault(v, 0)
            by_solver[eng][v] += 1
        for eng, s in ob.secs.items():
            tot_secs += s
            max_secs = max(max_secs, s)
        if ob.kind == "prove":
            nprove += 1
            if ob.verdict == "unsat":
                ndis += 1
            elif ob.verdict == "sat":
                candidates.append((ob.name, ob.family, ob.params, ob.model, "solver model for the negated claim"))
            else:
                inconclusive.append("%s: %s %s" % (ob.name, ob.verdict, json.dumps(ob.info)[:200]))
        else:
            if ob.verdict != "sat":
                inconclusive.append("%s (%s expected sat): %s" % (ob.name, ob.kind, ob.verdict))
    for name, family, params, what in ctx.direct_violations:
        candidates.append((name, family, params, None, what))

    # translator validation results
    validated = 0
    conc_bad = []
    for (name, family, params), r in zip(ctx.concrete_jobs, conc):
        if r.get("error"):
            inconclusive.append("concrete %s: %s" % (name, r["error"][-300:]))
        elif r.get("gap", 1.0) <= GAP:
            validated += 1
        else:
            conc_bad.append((name, family, params, r))

    # replay candidates on the real build
    known = [k for k in load_known() if k.get("property") == pid]
    violations = []
    known_hits = []
    os.makedirs(os.path.join(ROOT, "replays"), exist_ok=True)
    if candidates:
        # group by (family, params) so the JIT build is paid once
        jobs = []
        for name, family, params, model, what in candidates:
            p = dict(params or {})
            if model:
                p["_model"] = model
            jobs.append((name, family, p))
        # identical (family, params) replays are run once and shared
        uniq = {}
        order = []
        for name, family, p in jobs:
            k = json.dumps([family, {a: b for a, b in p.items() if a != "_model"}], sort_keys=True, default=str)
            if k not in uniq:
                uniq[k] = len(order)
                order.append((name, family, p))
        ctx.log("replaying %d counterexample candidates (%d distinct replays) on the JIT build" % (len(jobs), len(order)))
        grp = {ob.name: "%s|%s" % (ob.family, ob.group) for ob in ctx.obs}
        ures = run_concrete(pid, order, groups=grp)
        res = []
        for name, family, p in jobs:
            k = json.dumps([family, {a: b for a, b in p.items() if a != "_model"}], sort_keys=True, default=str)
            res.append(ures[uniq[k]])
        seen_keys = set()
        for (name, family, params, model, what), (_, _, p), r in zip(candidates, jobs, res):
            if r.get("error"):
                inconclusive.append("replay %s: %s" % (name, r["error"][-300:]))
                continue
            if r.get("skipped_same_group"):
                continue
            if r.get("gap", 0.0) > GAP:
                key = r.get("key") or name
                if key in seen_keys:
                    continue
                seen_keys.add(key)
                kf = [k for k in known if k.get("status") == "known" and k.get("key") == key]
                rec = {"property": pid, "obligation": name, "key": key, "family": family, "params": p, "what": what, "observed": r}
                if kf:
                    known_hits.append((key, kf[0].get("what", "")))
                else:
                    h = hashlib.sha256(json.dumps(rec, sort_keys=True, default=str).encode()).hexdigest()[:10]
                    path = os.path.join(ROOT, "replays", "%s-%s.json" % (pid, h))
                    with open(path, "w") as f:
                        json.dump(rec, f, indent=1, default=str)
                    violations.append((name, path, r))
            else:
                inconclusive.append("replay %s did not reproduce (gap %.3g): encoding or stub suspect" % (name, r.get("gap", 0.0)))
    unknown_keys = set()
    for ob in ctx.obs:
        if ob.kind == "prove" and ob.verdict not in ("unsat", "sat"):
            unknown_keys.add(json.dumps([ob.family, ob.params], sort_keys=True, default=str))
    for name, family, params, r in list(conc_bad):
        k = json.dumps([family, params], sort_keys=True, default=str)
        key = r.get("key") or name
        if k in unknown_keys and not any((rr.get("key") or n) == key for n, _, rr in violations):
            # the solver could not decide the matching obligations, but the concrete differential run of exactly this
            # configuration on the JIT build disagrees with its oracle: a reproduced counterexample
            kf = [x for x in known if x.get("status") == "known" and x.get("key") == key]
            if kf:
                if not any(kk == key for kk, _ in known_hits):
                    known_hits.append((key, kf[0].get("what", "")))
            else:
                rec = {"property": pid, "obligation": name, "key": key, "family": family, "params": params, "what": "solver inconclusive on the matching obligations; counterexample found by the concrete differential replay of the same configuration", "observed": r}
                h = hashlib.sha256(json.dumps(rec, sort_keys=True, default=str).encode()).hexdigest()[:10]
                path = os.path.join(ROOT, "replays", "%s-%s.json" % (pid, h))
                with open(path, "w") as f:
                    json.dump(rec, f, indent=1, default=str)
                violations.append((name, path, r))
            conc_bad.remove((name, family, params, r))
    for name, family, params, r in conc_bad:
        # the compiled build disagrees with its oracle where the encoding found nothing to report
        if not any(v[0] == name for v in violations):
            key = r.get("key") or name
            kf = [k for k in known if k.get("status") == "known" and k.get("key") == key]
            if kf:
                if not any(k == key for k, _ in known_hits):
                    known_hits.append((key, kf[0].get("what", "")))
            elif not any((rr.get("key") or n) == key for n, _, rr in violations):
                inconclusive.append("concrete %s: build and oracle differ (gap %.3g) although the encoding raised no counterexample" % (name, r.get("gap")))

    from . import hook

    wall = time.time() - ctx.t0
    expl = getattr(module, "EXPLANATION", "")
    groups = {}
    for ob in ctx.obs:
        g = groups.setdefault(ob.group, {"obligations": 0, "unsat": 0, "sat": 0, "unknown": 0, "kind": ob.kind})
        g["obligations"] += 1
        g[ob.verdict if ob.verdict in ("unsat", "sat") else "unknown"] += 1
    samples = list(ctx.samples)
    for ob in ctx.obs[:1] + [o for o in ctx.obs if o.kind != "prove"][:1]:
        samples.append({"obligation": ob.name, "kind": ob.kind, "verdict": ob.verdict, "smt2_head": ob.smt2[:1500], "smt2_bytes": len(ob.smt2)})
    ev = {
        "property_id": pid,
        "tier": ctx.tier,
        "seed": ctx.seed,
        "level": getattr(module, "LEVEL", "other"),
        "coverage": {
            "explanation": expl,
            "technique": "symbolic execution of the repository's current source over z3 terms; obligations decided by z3 5.1 / cvc5 1.4 (unsat = holds for all values within the stated bounds)",
            "obligations": nprove,
            "discharged": ndis,
            "evaluations": len(ctx.obs),
            "distinct_nontrivial": len({hashlib.sha256(o.smt2.encode()).hexdigest() for o in ctx.obs if len(o.smt2) > 200}),
            "rule": "one case = one solver query (negated claim, reachability witness or negative twin) generated from the symbolic run; distinct = distinct SMT-LIB text; non-trivial = query text > 200 bytes (i.e. not a constant-folded tautology)",
            "reachability_and_negative_twins": {"expected_sat": sum(1 for o in ctx.obs if o.kind != "prove"), "came_back_sat": sum(1 for o in ctx.obs if o.kind != "prove" and o.verdict == "sat")},
            "groups": groups,
            "paths_explored": ctx.paths,
            "exhaustive": bool(ctx.exhaustive_paths and not inconclusive),
            "bounds": ctx.bounds,
            "outside_the_claim": ctx.outside,
            "stubs": ctx.stubs,
            "solver": {"by_engine": by_solver, "total_solver_s": round(tot_secs, 2), "max_query_s": round(max_secs, 2), "wall_s": round(solver_wall, 2)},
            "encode_s": ctx.encode_secs,
            "slowest_queries": [{"obligation": o.name, "secs": {k: round(v, 2) for k, v in o.secs.items()}, "by": o.by} for o in sorted(ctx.obs, key=lambda o: -max(o.secs.values() or [0]))[:5]],
            "traces_validated_against_impl": validated,
            "programs": len(hook.EXECUTED),
            "disagreements_checked": len(candidates),
            "functions_encoded": hook.executed_functions(),
            "source_files_sha256": {os.path.relpath(k, REPO): v[:16] for k, v in sorted(hook.LOADED.items())} if len(hook.LOADED) < 80 else {"count": len(hook.LOADED)},
            "samples": samples or [{"note": "no samples"}],
            "inconclusive": inconclusive[:40],
            "known_findings_hit": [k for k, _ in known_hits],
            "notes": ctx.notes,
        },
        "assumptions": ctx.assumptions + ["floats are modelled as reals (rounding, fastmath re-association, float32 are outside the claim)", "Numba compiles the source to code with the real-number semantics of CPython executing it (spot-checked by the concrete JIT runs counted in traces_validated_against_impl)"],
        "wall_s": round(wall, 2),
        "violations": len(violations),
    }
    extra = getattr(module, "evidence_extra", None)
    if extra:
        ev["coverage"].update(extra(ctx))
    os.makedirs(os.path.join(ROOT, "evidence"), exist_ok=True)
    with open(os.path.join(ROOT, "evidence", pid + ".json"), "w") as f:
        json.dump(ev, f, indent=1, default=str)
    for key, what in known_hits:
        print("KNOWN-FINDING: property=%s %s: %s" % (pid, key, what), flush=True)
    for name, path, r in violations:
        print("VIOLATION property=%s replay=%s" % (pid, path), flush=True)
        ctx.log("  obligation %s: %s" % (name, json.dumps(r, default=str)[:400]))
    if violations:
        ctx.log("FAILED: %d violation(s)" % len(violations))
        return 1
    if inconclusive:
        for s in inconclusive[:20]:
            print("INCONCLUSIVE property=%s %s" % (pid, s), flush=True)
        return 2
    ctx.log("OK: %d/%d obligations discharged, %d expected-sat queries sat, %d concrete validations, %.1fs" % (ndis, nprove, ev["coverage"]["reachability_and_negative_twins"]["came_back_sat"], validated, wall))
    return 0
