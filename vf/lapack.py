"""Contract stubs for LAPACK / SuperLU entry points used by bempp-cl.

splu(M).solve(b): if every entry of M is a constant (exact rational), the exact inverse is computed by
Gauss-Jordan elimination over Fractions and applied to b (which may be symbolic).  If M has symbolic entries
the contract 'returns the solution of a non-singular system' is used: a fresh vector x with hypotheses
M x = b (recorded in CONTRACTS for the harness to assume)."""
from fractions import Fraction
import numpy as np
import scipy.sparse as sps
import scipy.sparse.linalg as spl
import z3
from .sym import SR, SC, ZERO
from .npshim import SA, lift_arr, isobj
from .sparse import DS, todense_obj

CONTRACTS = []  # z3 hypotheses introduced by symbolic solves
_counter = [0]
_real_splu = spl.splu


def exact_inverse(M):
    n = M.shape[0]
    if any(isinstance(x, SC) for x in np.asarray(M, dtype=object).ravel()):
        return None
    A = [[SR.lift(M[i, j]).c for j in range(n)] for i in range(n)]
    if any(x is None for row in A for x in row):
        return None
    A = [[Fraction(x) for x in row] + [Fraction(int(i == j)) for j in range(n)] for i, row in enumerate(A)]
    for c in range(n):
        p = next((r for r in range(c, n) if A[r][c] != 0), None)
        if p is None:
            raise np.linalg.LinAlgError("singular matrix in exact solve")
        A[c], A[p] = A[p], A[c]
        piv = A[c][c]
        A[c] = [x / piv for x in A[c]]
        for r in range(n):
            if r != c and A[r][c] != 0:
                f = A[r][c]
                A[r] = [x - f * y for x, y in zip(A[r], A[c])]
    inv = np.empty((n, n), dtype=object)
    for i in range(n):
        for j in range(n):
            inv[i, j] = SR(c=A[i][n + j])
    return inv.view(SA)


class SpluStub:
    def __init__(self, mat):
        self.M = todense_obj(mat)
        self.shape = self.M.shape
        self.inv = exact_inverse(self.M)

    def solve(self, rhs):
        rhs_a = lift_arr(rhs) if not isobj(rhs) else rhs
        if self.inv is not None:
            return (self.inv @ rhs_a).view(SA)
        # symbolic matrix: contract stub
        _counter[0] += 1
        shape = rhs_a.shape
        x = np.empty(shape, dtype=object)
        cplx = any(isinstance(e, SC) for e in rhs_a.ravel())
        for idx in np.ndindex(*shape):
            nm = "lu%d_%s" % (_counter[0], "_".join(map(str, idx)))
            x[idx] = SC(SR.var(nm + "r"), SR.var(nm + "i")) if cplx else SR.var(nm)
        x = x.view(SA)
        prod = self.M @ x
        from .sym import eq_formula

        for idx in np.ndindex(*shape):
            CONTRACTS.append(eq_formula(prod[idx], rhs_a[idx]))
        return x


def splu(mat, *a, **k):
    if isinstance(mat, DS) or isobj(mat):
        return SpluStub(mat)
    if sps.issparse(mat):
        # concrete SciPy matrix inside the symbolic process: still solve exactly (no floating point)
        return SpluStub(mat)
    return _real_splu(mat, *a, **k)


_installed = False


def install():
    global _installed
    if _installed:
        return
    _installed = True
    spl.splu = splu
    import scipy.linalg as sl

    _real_solve = sl.solve
    _real_lu_factor, _real_lu_solve = sl.lu_factor, sl.lu_solve

    def solve(a, b, *args, **kw):
        if isobj(a) or isobj(b):
            return SpluStub(a).solve(b)
        return _real_solve(a, b, *args, **kw)

    def lu_factor(a, *args, **kw):
        if isobj(a):
            return ("vf-lu", SpluStub(a))
        return _real_lu_factor(a, *args, **kw)

    def lu_solve(fac, b, *args, **kw):
        if isinstance(fac, tuple) and len(fac) == 2 and fac[0] == "vf-lu":
            return fac[1].solve(b)
        return _real_lu_solve(fac, b, *args, **kw)

    sl.solve, sl.lu_factor, sl.lu_solve = solve, lu_factor, lu_solve
