"""Symbolic/concrete interpreter for the LLVM-IR subset clang-14 emits for bempp-cl's OpenCL headers
(target spir64, -O1, -ffp-contract=off): fadd fsub fmul fdiv fneg fcmp br phi load store getelementptr
shufflevector insertelement extractelement call ret.  Values are lanes of an arithmetic domain `D`
(z3 reals with abstracted irrational functions, or Python floats for concrete replay)."""
import math
import os
import re
import struct
import subprocess
from fractions import Fraction

INC = "bempp_cl/core/sources/include"
HEADERS = ["kernels.h", "p0_discontinuous_shapeset.h", "p1_discontinuous_shapeset.h", "rwg0_shapeset.h", "snc0_shapeset.h"]


def compile_headers(repo, precision, outdir):
    """clang the *current* headers to IR; returns path of the .ll file."""
    os.makedirs(outdir, exist_ok=True)
    cl = os.path.join(outdir, "k%d.cl" % precision)
    ll = os.path.join(outdir, "k%d.ll" % precision)
    with open(cl, "w") as f:
        for h in HEADERS:
            f.write('#include "%s"\n' % h)
    cmd = ["clang-14", "-x", "cl", "-cl-std=CL1.2", "-target", "spir64", "-Xclang", "-finclude-default-header", "-Dinline=", "-ffp-contract=off", "-O1", "-S", "-emit-llvm",
           "-DPRECISION=%d" % precision, "-DVEC_LENGTH=4", "-I", os.path.join(repo, INC), cl, "-o", ll]
    p = subprocess.run(cmd, capture_output=True, text=True)
    if p.returncode != 0:
        raise RuntimeError("clang failed: " + p.stderr[-2000:])
    return ll


def hexdouble(s):
    return struct.unpack(">d", bytes.fromhex(s[2:].rjust(16, "0")))[0]


def fvalue(tok):
    tok = tok.strip()
    if tok.startswith("0x"):
        return hexdouble(tok)
    return float(tok)


FT = r"(?:float|double)"
VT = r"<\d+ x " + FT + ">"


class Fn:
    def __init__(self, name, params):
        self.name = name
        self.params = params
        self.blocks = {"entry": []}
        self.order = ["entry"]
        self.entry_label = None


def split_top(s):
    out = []
    depth = 0
    cur = ""
    for ch in s:
        if ch in "<([{":
            depth += 1
        if ch in ">)]}":
            depth -= 1
        if ch == "," and depth == 0:
            out.append(cur)
            cur = ""
        else:
            cur += ch
    if cur.strip():
        out.append(cur)
    return out


def parse(path):
    fns = {}
    cur = None
    label = None
    for line in open(path):
        line = line.rstrip("\n")
        m = re.match(r"define .*@([A-Za-z0-9_]+)\((.*)\) local_unnamed_addr", line)
        if m:
            params = []
            for p in split_top(m.group(2)):
                p = p.strip()
                ty = re.split(r" (?:noundef|nocapture)", p)[0].strip()
                params.append((ty, p.split()[-1]))
            cur = Fn(m.group(1), params)
            cur.entry_label = str(len(params))
            label = "entry"
            fns[cur.name] = cur
            continue
        if cur is None:
            continue
        if line.startswith("}"):
            cur = None
            continue
        m = re.match(r"^(\d+):", line)
        if m:
            label = m.group(1)
            cur.blocks[label] = []
            cur.order.append(label)
            continue
        s = line.strip()
        if not s or s.startswith(";"):
            continue
        s = re.split(r", !(?:tbaa|fpmath)", s)[0]
        s = re.sub(r", align \d+$", "", s)
        if "call" not in s:
            s = s.split(" #")[0]
        cur.blocks[label].append(s)
    return fns


def tysize(ty):
    ty = ty.strip()
    m = re.match(r"<(\d+) x " + FT + ">$", ty)
    if m:
        n = int(m.group(1))
        return 4 if n == 3 else n
    m = re.match(r"\[(\d+) x (.+)\]$", ty)
    if m:
        return int(m.group(1)) * tysize(m.group(2))
    if ty in ("double", "float"):
        return 1
    raise ValueError(ty)


def elemty(ty):
    ty = ty.strip()
    m = re.match(r"<(\d+) x (" + FT + ")>$", ty)
    if m:
        return m.group(2)
    m = re.match(r"\[(\d+) x (.+)\]$", ty)
    if m:
        return m.group(2)
    raise ValueError(ty)


def veclen(ty):
    m = re.match(r"<(\d+) x (?:double|float|i32)>$", ty.strip())
    return int(m.group(1)) if m else None


class Mem:
    def __init__(self, n, init=None):
        self.cells = list(init) if init is not None else [None] * n


class SymDomain:
    """z3 reals; irrational functions through the abstraction registry."""

    def __init__(self, ABS, constmap=None):
        import z3

        self.z3 = z3
        self.ABS = ABS
        self.constmap = constmap or (lambda v: None)
        self.constants = []

    def const(self, v):
        self.constants.append(v)
        m = self.constmap(v)
        if m is not None:
            return m
        return self.z3.RealVal(str(Fraction(v)))

    def zero(self):
        return self.z3.RealVal(0)

    def div(self, x, y):
        return x * self.ABS.app("inv", y)

    def fn(self, name, x):
        if name == "rsqrt":
            return self.ABS.app("inv", self.ABS.app("sqrt", x))
        return self.ABS.app(name, x)

    def cmp(self, cc, x, y):
        return {"une": x != y, "oeq": x == y, "ogt": x > y, "olt": x < y, "oge": x >= y, "ole": x <= y, "one": x != y, "ueq": x == y}[cc]

    def neg(self, c):
        return self.z3.Not(c)


class FloatDomain:
    def const(self, v):
        return v

    def zero(self):
        return 0.0

    def div(self, x, y):
        return x / y

    def fn(self, name, x):
        if name == "rsqrt":
            return 1.0 / math.sqrt(x)
        return getattr(math, name)(x)

    def cmp(self, cc, x, y):
        return {"une": x != y, "oeq": x == y, "ogt": x > y, "olt": x < y, "oge": x >= y, "ole": x <= y, "one": x != y, "ueq": x == y}[cc]

    def neg(self, c):
        return not c


def _builtin(D, name, args):
    mm = re.match(r"_Z(\d+)", name)
    n_ = int(mm.group(1))
    base = name[mm.end() : mm.end() + n_]
    if base in ("sqrt", "rsqrt", "exp", "cos", "sin"):
        a = args[0]
        return [D.fn(base, x) for x in a] if isinstance(a, list) else D.fn(base, a)
    if base == "dot":
        return sum((x * y for x, y in zip(args[0][1:3], args[1][1:3])), args[0][0] * args[1][0])
    if base == "length":
        a = args[0]
        return D.fn("sqrt", a[0] * a[0] + a[1] * a[1] + a[2] * a[2])
    if base == "distance":
        d = [x - y for x, y in zip(args[0][:3], args[1][:3])]
        return D.fn("sqrt", d[0] * d[0] + d[1] * d[1] + d[2] * d[2])
    raise ValueError("unknown builtin " + name)


def run(fn, argvals, D):
    """execute fn; returns list of (path_condition list, mems dict) - one per control-flow path."""
    results = []
    concrete = isinstance(D, FloatDomain)

    def operand(tok, ty, env):
        tok = tok.strip()
        n = veclen(ty)
        if tok.startswith("%"):
            return env[tok]
        if tok in ("undef", "poison"):
            return [None] * n if n else None
        if tok == "zeroinitializer":
            return [D.zero()] * n if ("double" in ty or "float" in ty) else [0] * n
        if tok.startswith("<"):
            items = split_top(tok[1:-1])
            out = []
            for i in items:
                parts = i.split()
                if parts[-1] in ("undef", "poison"):
                    out.append(None)
                elif parts[0] == "i32":
                    out.append(int(parts[-1]))
                else:
                    out.append(D.const(fvalue(parts[-1])))
            return out
        if ty.strip() in ("double", "float"):
            return D.const(fvalue(tok))
        return int(tok)

    def binop(op, a, b):
        def f(x, y):
            if op == "fadd":
                return x + y
            if op == "fsub":
                return x - y
            if op == "fmul":
                return x * y
            return D.div(x, y)

        if isinstance(a, list):
            return [None if (x is None or y is None) else f(x, y) for x, y in zip(a, b)]
        return f(a, b)

    def exec_from(label, prev, env, mems, pc):
        while True:
            jumped = False
            for ins in fn.blocks[label]:
                m = re.match(r"(%\d+) = (fadd|fsub|fmul|fdiv) (?:fast |nnan |ninf |nsz |arcp |contract |afn |reassoc )*(" + VT + "|" + FT + ") (.+)$", ins)
                if m:
                    d, op, ty, rest = m.groups()
                    a, b_ = split_top(rest)
                    env[d] = binop(op, operand(a, ty, env), operand(b_, ty, env))
                    continue
                m = re.match(r"(%\d+) = fneg (" + VT + "|" + FT + ") (.+)$", ins)
                if m:
                    d, ty, a = m.groups()
                    v = operand(a, ty, env)
                    env[d] = [None if x is None else -x for x in v] if isinstance(v, list) else -v
                    continue
                m = re.match(r"(%\d+) = fcmp (\w+) " + FT + " (.+), (.+)$", ins)
                if m:
                    d, cc, a, b_ = m.groups()
                    env[d] = D.cmp(cc, operand(a, "double", env), operand(b_, "double", env))
                    continue
                m = re.match(r"br i1 (%\d+), label %(\d+), label %(\d+)$", ins)
                if m:
                    c, a, b_ = m.groups()
                    if concrete:
                        prev = label
                        label = a if env[c] else b_
                        jumped = True
                        break
                    for tgt, cond in ((a, env[c]), (b_, D.neg(env[c]))):
                        exec_from(tgt, label, dict(env), {k: Mem(0, v.cells) for k, v in mems.items()}, pc + [cond])
                    return
                m = re.match(r"br label %(\d+)$", ins)
                if m:
                    prev = label
                    label = m.group(1)
                    jumped = True
                    break
                m = re.match(r"(%\d+) = phi (" + VT + "|" + FT + ") (.+)$", ins)
                if m:
                    d, ty, rest = m.groups()
                    found = False
                    for val, lab in re.findall(r"\[ (.+?), %(\d+) \]", rest):
                        if lab == (prev if prev != "entry" else fn.entry_label):
                            env[d] = operand(val, ty, env)
                            found = True
                    if not found:
                        raise ValueError("phi without matching predecessor: " + ins)
                    continue
                m = re.match(r"(%\d+) = load (.+?), (.+?)\* (%\d+)", ins)
                if m:
                    d, ty, _, p = m.groups()
                    obj, off = env[p]
                    n = veclen(ty)
                    env[d] = mems[obj].cells[off : off + n] if n else mems[obj].cells[off]
                    continue
                m = re.match(r"store (" + VT + "|" + FT + ") (.+), (?:" + VT + "|" + FT + r")(?: addrspace\(\d+\))?\* (%\d+)", ins)
                if m:
                    ty, v, p = m.groups()
                    obj, off = env[p]
                    val = operand(v, ty, env)
                    if isinstance(val, list):
                        for i, x in enumerate(val):
                            mems[obj].cells[off + i] = x
                    else:
                        mems[obj].cells[off] = val
                    continue
                m = re.match(r"(%\d+) = getelementptr inbounds (.+?), (.+?)\* (%\d+), (.+)$", ins)
                if m:
                    d, ty, _, p, idxs = m.groups()
                    obj, off = env[p]
                    idx = [int(i.split()[-1]) for i in idxs.split(",")]
                    off += idx[0] * tysize(ty)
                    t = ty
                    for i in idx[1:]:
                        t2 = elemty(t)
                        off += i * tysize(t2)
                        t = t2
                    env[d] = (obj, off)
                    continue
                m = re.match(r"(%\d+) = shufflevector (" + VT + ") (.+?), (" + VT + r") (.+?), (<\d+ x i32>) (.+)$", ins)
                if m:
                    d, ty1, a, ty2, b_, mty, mask = m.groups()
                    A = operand(a, ty1, env)
                    B = operand(b_, ty2, env)
                    n = veclen(ty1)
                    M = operand(mask, mty, env) if mask.strip() != "zeroinitializer" else [0] * veclen(mty)
                    both = list(A) + list(B if isinstance(B, list) else [None] * n)
                    env[d] = [None if i is None else both[i] for i in M]
                    continue
                m = re.match(r"(%\d+) = insertelement (" + VT + ") (.+?), " + FT + r" (.+?), i64 (\d+)$", ins)
                if m:
                    d, ty, a, v, i = m.groups()
                    A = list(operand(a, ty, env))
                    A[int(i)] = operand(v, "double", env)
                    env[d] = A
                    continue
                m = re.match(r"(%\d+) = extractelement (" + VT + r") (.+?), i64 (\d+)$", ins)
                if m:
                    d, ty, a, i = m.groups()
                    env[d] = operand(a, ty, env)[int(i)]
                    continue
                m = re.match(r"(%\d+) = call spir_func (.+?) @([A-Za-z0-9_]+)\((.*)\)", ins)
                if m:
                    d, rty, name, args = m.groups()
                    av = []
                    for a in split_top(args):
                        a = a.strip()
                        ty = a.split(" noundef")[0]
                        av.append(operand(a.split()[-1], ty, env))
                    env[d] = _builtin(D, name, av)
                    continue
                if ins.startswith("ret"):
                    results.append((pc, mems))
                    return
                raise ValueError("unhandled IR instruction: " + ins)
            if not jumped:
                raise ValueError("fell off block " + label)

    env = {}
    mems = {}
    for (ty, name), val in zip(fn.params, argvals):
        if isinstance(val, Mem):
            mems[name] = val
            env[name] = (name, 0)
        else:
            env[name] = val
    exec_from("entry", "entry", env, mems, [])
    return results
