"""Dense-backed stand-ins for scipy.sparse objects holding symbolic entries (contract: duplicates are
summed, @ is the matrix product, .T the transpose). Concrete SciPy matrices are left alone, except that
(concrete sparse) @ (symbolic dense) is evaluated as the dense product."""
import numpy as np
import scipy.sparse as sps
import scipy.sparse.linalg as spl
from .npshim import SA, lift_arr, is_sym, isobj
from .sym import SR, SC, SI, ZERO

_real_coo, _real_csr, _real_csc, _real_aslin = sps.coo_matrix, sps.csr_matrix, sps.csc_matrix, spl.aslinearoperator
_real_diags = sps.diags


def _is_obj(x):
    return isobj(x)


def todense_obj(m):
    if isinstance(m, DS):
        return m.a
    if sps.issparse(m):
        m = m.toarray()
    return lift_arr(m)


class DS:
    """Dense symbolic 'sparse' matrix."""

    ndim = 2

    def __init__(self, a):
        self.a = lift_arr(a)
        self.shape = self.a.shape

    @property
    def dtype(self):
        return self.a.dtype

    def tocsr(self):
        return self

    tocsc = tocoo = tocsr

    def toarray(self):
        return self.a

    todense = toarray
    A = property(toarray)

    @property
    def T(self):
        return DS(self.a.T)

    def transpose(self):
        return DS(self.a.T)

    def conjugate(self):
        return DS(self.a.conjugate())

    conj = conjugate

    @property
    def H(self):
        return DS(self.a.conjugate().T)

    def getH(self):
        return self.H

    def astype(self, dt, **k):
        return DS(self.a.astype(dt))

    def __matmul__(self, o):
        if isinstance(o, DS) or sps.issparse(o):
            return DS(self.a @ todense_obj(o))
        if isinstance(o, np.ndarray):
            return (self.a @ lift_arr(o)).view(SA)
        return NotImplemented

    def __rmatmul__(self, o):
        if isinstance(o, np.ndarray) and o.ndim == 1:
            return (lift_arr(o) @ self.a).view(SA)
        return DS(todense_obj(o) @ self.a)

    def dot(self, o):
        return self.__matmul__(o)

    def __mul__(self, o):
        if np.isscalar(o) or isinstance(o, (SR, SC, SI)):
            return DS(self.a * o)
        return self.__matmul__(o)

    def __rmul__(self, o):
        return DS(self.a * o)

    def __truediv__(self, o):
        return DS(self.a / o)

    def __add__(self, o):
        return DS(self.a + todense_obj(o))

    __radd__ = __add__

    def __neg__(self):
        return DS(-self.a)

    def __sub__(self, o):
        return DS(self.a - todense_obj(o))

    def __rsub__(self, o):
        return DS(todense_obj(o) - self.a)

    def diagonal(self):
        return np.diagonal(self.a).view(SA)

    def __getitem__(self, k):
        r = self.a[k]
        return DS(r) if isinstance(r, np.ndarray) and r.ndim == 2 else r

    def sum(self, axis=None):
        return self.a.sum(axis=axis)

    def multiply(self, o):
        return DS(self.a * todense_obj(o))

    def matvec(self, x):
        return self.a @ lift_arr(x)


def coo_matrix(arg, shape=None, dtype=None, **k):
    if isinstance(arg, DS):
        return arg
    if isinstance(arg, tuple) and len(arg) == 2 and isinstance(arg[1], tuple) and _is_obj(np.asarray(arg[0]) if not isinstance(arg[0], np.ndarray) else arg[0]):
        data, (ii, jj) = arg
        a = np.empty(shape, dtype=object)
        a.fill(ZERO)
        for d, i, j in zip(np.asarray(data).ravel(), np.asarray(ii).ravel(), np.asarray(jj).ravel()):
            a[int(i), int(j)] = a[int(i), int(j)] + d
        return DS(a)
    if _is_obj(arg):
        return DS(arg)
    return _real_coo(arg, shape=shape, dtype=dtype, **k)


def csr_matrix(arg, shape=None, dtype=None, **k):
    if isinstance(arg, DS):
        return arg
    if isinstance(arg, tuple) and len(arg) == 3 and _is_obj(arg[0]):
        data, indices, indptr = arg
        a = np.empty(shape, dtype=object)
        a.fill(ZERO)
        for r in range(shape[0]):
            for p in range(int(indptr[r]), int(indptr[r + 1])):
                a[r, int(indices[p])] = a[r, int(indices[p])] + data[p]
        return DS(a)
    if isinstance(arg, tuple) and len(arg) == 2 and isinstance(arg[1], tuple) and _is_obj(np.asarray(arg[0]) if not isinstance(arg[0], np.ndarray) else arg[0]):
        return coo_matrix(arg, shape=shape)
    if _is_obj(arg):
        return DS(arg)
    return _real_csr(arg, shape=shape, dtype=dtype, **k)


def csc_matrix(arg, shape=None, dtype=None, **k):
    if isinstance(arg, DS):
        return arg
    if _is_obj(arg):
        return DS(arg)
    if isinstance(arg, tuple) and len(arg) == 2 and isinstance(arg[1], tuple) and _is_obj(np.asarray(arg[0]) if not isinstance(arg[0], np.ndarray) else arg[0]):
        return coo_matrix(arg, shape=shape)
    return _real_csc(arg, shape=shape, dtype=dtype, **k)


def diags(d, offsets=0, shape=None, **k):
    arr = d if isinstance(d, np.ndarray) else None
    if arr is not None and _is_obj(arr) and arr.ndim == 1:
        n = arr.shape[0]
        a = np.empty((n, n), dtype=object)
        a.fill(ZERO)
        for i in range(n):
            a[i, i] = arr[i]
        return DS(a)
    return _real_diags(d, offsets, shape=shape, **k)


class LO:
    """symbolic linear operator (dense)."""

    def __init__(self, a):
        self.a = todense_obj(a)
        self.shape = self.a.shape

    @property
    def dtype(self):
        return self.a.dtype

    def __matmul__(self, o):
        if isinstance(o, LO):
            return LO(self.a @ o.a)
        if isinstance(o, DS) or sps.issparse(o):
            return LO(self.a @ todense_obj(o))
        if not isinstance(o, np.ndarray) and hasattr(o, "matmat"):
            return LO(self.a @ lift_arr(o.matmat(np.eye(o.shape[1]))))
        return (self.a @ lift_arr(o)).view(SA)

    def __rmatmul__(self, o):
        if not isinstance(o, np.ndarray) and hasattr(o, "matmat"):
            return LO(lift_arr(o.matmat(np.eye(o.shape[1]))) @ self.a)
        return (lift_arr(o) @ self.a).view(SA)

    def __add__(self, o):
        return LO(self.a + (o.a if isinstance(o, LO) else todense_obj(o)))

    def __neg__(self):
        return LO(-self.a)

    def __sub__(self, o):
        return LO(self.a - (o.a if isinstance(o, LO) else todense_obj(o)))

    def __rmul__(self, o):
        return LO(self.a * o)

    def adjoint(self):
        return LO(self.a.conjugate().T)

    H = property(adjoint)

    def matvec(self, x):
        return (self.a @ lift_arr(x)).view(SA)

    def matmat(self, x):
        return (self.a @ lift_arr(x)).view(SA)

    dot = __matmul__
    __mul__ = __matmul__

    @property
    def T(self):
        return LO(self.a.T)

    def transpose(self):
        return self.T


def aslinearoperator(m):
    """in the symbolic process every matrix-backed linear operator is the dense LO (concrete entries are
    lifted to exact rationals), so that compositions never mix SciPy operators with symbolic ones."""
    if isinstance(m, LO):
        return m
    if isinstance(m, DS) or _is_obj(m) or sps.issparse(m) or isinstance(m, np.ndarray):
        return LO(m)
    return _real_aslin(m)


_installed = False


def install():
    global _installed
    if _installed:
        return
    _installed = True
    sps.coo_matrix = coo_matrix
    sps.csr_matrix = csr_matrix
    sps.csc_matrix = csc_matrix
    sps.diags = diags
    spl.aslinearoperator = aslinearoperator
    # scipy's LinearOperator.dot converts its operand with np.asarray (dropping the SA subclass whose astype / dtype
    # the code under analysis relies on): keep object operands as SA
    import scipy.sparse.linalg._interface as _itf

    _orig_dot = _itf.LinearOperator.dot

    def _dot(self, x):
        if isobj(x):
            x = x.view(SA)
            if x.ndim == 1 or (x.ndim == 2 and x.shape[1] == 1):
                return self.matvec(x)
            if x.ndim == 2:
                return self.matmat(x)
        return _orig_dot(self, x)

    _itf.LinearOperator.dot = _dot
    import scipy.sparse._base as _spb

    _orig_dispatch = _spb._spbase._matmul_dispatch

    def _matmul_dispatch(self, other):
        if isinstance(other, DS):
            return DS(todense_obj(self) @ other.a)
        if isinstance(other, np.ndarray) and isobj(other):
            return (todense_obj(self) @ other).view(SA)
        return _orig_dispatch(self, other)

    _spb._spbase._matmul_dispatch = _matmul_dispatch
    _orig_r = getattr(_spb._spbase, "_rmatmul_dispatch", None)
    if _orig_r is not None:

        def _rmatmul_dispatch(self, other):
            if isinstance(other, DS):
                return DS(other.a @ todense_obj(self))
            if isinstance(other, np.ndarray) and isobj(other):
                return (other @ todense_obj(self)).view(SA)
            return _orig_r(self, other)

        _spb._spbase._rmatmul_dispatch = _rmatmul_dispatch
