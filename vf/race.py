"""Two-symbolic-iteration race analysis of `prange` loops.

The real function body is executed once; its `prange` yields TWO symbolic iteration numbers I0 < I1
(unbounded ints).  Numeric values are opaque; index-valued inputs (element lists, local2global, offsets,
CSR pointers) are uninterpreted functions over unbounded ints (FunArray); every array that is visible to
both iterations (the output, and anything allocated outside the loop) records its reads and writes
(RecArray).  A race is a pair of accesses from different iterations, at least one a write, whose index
terms can be equal - a satisfiable LIA+UF query whose model names the two iterations / elements."""
import numpy as np
import z3

I = z3.IntSort()
ACCESS = []
CUR = [None]


def reset():
    del ACCESS[:]
    CUR[0] = None


class SIx:
    """symbolic index (z3 Int term); never concretised."""

    __array_ufunc__ = None

    def __init__(self, t):
        self.t = t

    def _b(self, o, f):
        if isinstance(o, Opaque):
            return Opaque()
        return SIx(f(self.t, L(o)))

    def __add__(self, o):
        return self._b(o, lambda a, b: a + b)

    __radd__ = __add__

    def __sub__(self, o):
        return self._b(o, lambda a, b: a - b)

    def __rsub__(self, o):
        return self._b(o, lambda a, b: b - a)

    def __mul__(self, o):
        return self._b(o, lambda a, b: a * b)

    __rmul__ = __mul__

    def __index__(self):
        raise TypeError("symbolic index would be concretised")

    def __repr__(self):
        return "SIx(%s)" % self.t


def L(o):
    if isinstance(o, SIx):
        return o.t
    return z3.IntVal(int(o))


class Opaque:
    """a numeric value the analysis never inspects."""

    __array_ufunc__ = None

    def _o(self, *a, **k):
        if a and isinstance(a[0], np.ndarray) and a[0].ndim > 0:
            return OA(a[0].shape)
        return Opaque()

    __add__ = __radd__ = __sub__ = __rsub__ = __mul__ = __rmul__ = __truediv__ = __rtruediv__ = __neg__ = __pos__ = __pow__ = __abs__ = _o
    sqrt = exp = cos = sin = conjugate = conj = copy = _o
    real = property(_o)
    imag = property(_o)

    def __bool__(self):
        raise TypeError("branch on an opaque numeric value")

    def __array__(self, *a, **k):
        r = np.empty((), dtype=object)
        r[()] = self
        return r

    def dot(self, o):
        return Opaque()


_arrayize_done = False


def OA(shape):
    a = np.empty(shape, dtype=object)
    f = a.reshape(-1)
    for i in range(f.shape[0]):
        f[i] = Opaque()
    return a.view(OArr)


class OArr(np.ndarray):
    """object array of Opaque: arithmetic never inspects values, only shapes."""

    def __array_finalize__(self, obj):
        pass

    @property
    def dtype(self):
        return np.dtype("float64")

    def _arith(self, o):
        if isinstance(o, np.ndarray):
            return OA(np.broadcast_shapes(self.shape, o.shape))
        if isinstance(o, RecArray):
            return OA(np.broadcast_shapes(self.shape, o.shape))
        return OA(self.shape)

    __add__ = __radd__ = __sub__ = __rsub__ = __mul__ = __rmul__ = __truediv__ = __rtruediv__ = _arith

    def _inplace(self, o):
        return self

    __iadd__ = __isub__ = __imul__ = __itruediv__ = _inplace

    def __neg__(self):
        return OA(self.shape)

    def dot(self, o):
        if isinstance(o, np.ndarray) and self.ndim == 2 and o.ndim == 2:
            return OA((self.shape[0], o.shape[1]))
        if isinstance(o, np.ndarray) and self.ndim == 2 and o.ndim == 1:
            return OA((self.shape[0],))
        return Opaque()

    def __matmul__(self, o):
        return self.dot(np.asarray(o, dtype=object))

    def sum(self, *a, **k):
        return Opaque()

    def conjugate(self):
        return self

    conj = conjugate


class FunArray:
    """read-only input array modelled as an uninterpreted function of its leading index
    (kind='int': integer valued; kind='real': opaque values); trailing dimensions are concrete."""

    def __init__(self, name, trail=(), kind="real", length=2, lead_first=True):
        self.name = name
        self.trail = tuple(trail)
        self.kind = kind
        self.length = length
        self.lead_first = lead_first
        self.f = z3.Function(name, *([I] * (1 + len(self.trail))), I) if kind == "int" else None
        self.shape = ((length,) + self.trail) if lead_first else (self.trail + (length,))
        self.dtype = np.dtype("uint32" if kind == "int" else "float64")

    def __len__(self):
        return self.shape[0]

    def astype(self, *a, **k):
        return self

    def __getitem__(self, idx):
        if not isinstance(idx, tuple):
            idx = (idx,)
        if not self.lead_first:
            # (trail..., lead): e.g. elements[k, e], points[:, p]
            lead = idx[-1]
            rest = idx[:-1]
            if self.kind == "int":
                return SIx(self.f(L(lead), *[L(r) for r in rest]))
            shape = tuple(self.trail[i] for i, r in enumerate(rest) if isinstance(r, slice))
            return OA(shape).view(OArr) if shape else Opaque()
        lead, rest = idx[0], idx[1:]
        if isinstance(lead, slice):
            raise TypeError("slice over the symbolic dimension of %s" % self.name)
        if isinstance(lead, (int, np.integer)) and lead >= self.length:
            raise IndexError(lead)  # sequence protocol (enumerate / for) terminates
        if self.kind == "int":
            if len(rest) == len(self.trail):
                return SIx(self.f(L(lead), *[L(r) for r in rest]))
            out = np.empty(self.trail[len(rest):], dtype=object)
            for k in np.ndindex(*out.shape):
                out[k] = SIx(self.f(L(lead), *[L(r) for r in rest], *[z3.IntVal(i) for i in k]))
            return out
        shape = self.trail[len(rest):]
        return OA(shape) if shape else Opaque()

    def __mul__(self, o):
        return self

    __rmul__ = __mul__


class RecArray:
    """array visible to all iterations: records (iteration, 'r'/'w', array name, index tuple)."""

    def __init__(self, name, shape, dtype="float64"):
        self.name = name
        self.shape = tuple(shape)
        self.dtype = np.dtype(dtype)
        self.ndim = len(self.shape)

    def __len__(self):
        return self.shape[0]

    def _sub(self, idx):
        if not isinstance(idx, tuple):
            idx = (idx,)
        shape = []
        for k, d in enumerate(self.shape):
            if k < len(idx):
                if isinstance(idx[k], slice):
                    st, sp, _ = (idx[k].start, idx[k].stop, idx[k].step)
                    if isinstance(st, SIx) or isinstance(sp, SIx):
                        shape.append(None)
                    else:
                        shape.append(len(range(*idx[k].indices(d))))
            else:
                shape.append(d)
        return idx, shape

    def __getitem__(self, idx):
        idx, shape = self._sub(idx)
        if CUR[0] is not None:
            ACCESS.append((CUR[0], "r", self.name, idx))
        if None in shape:
            raise TypeError("symbolic slice read of %s" % self.name)
        return OA(tuple(shape)) if shape else Opaque()

    def __setitem__(self, idx, v):
        idx, _ = self._sub(idx)
        if CUR[0] is not None:
            ACCESS.append((CUR[0], "w", self.name, idx))

    def reshape(self, *a, **k):
        return self

    def copy(self):
        return self

    def ravel(self):
        return self


class Prange:
    """`numba.prange` stand-in: two symbolic iterations."""

    def __init__(self):
        self.I = [z3.Int("I0"), z3.Int("I1")]
        self.n = z3.Int("N")
        self.used = 0

    def __call__(self, n, *a):
        self.used += 1
        for k in range(2):
            CUR[0] = k
            yield SIx(self.I[k])
        CUR[0] = None

    def hyps(self):
        return [self.I[0] >= 0, self.I[1] > self.I[0], self.I[1] < self.n]


class RaceNP:
    """numpy stand-in for the analysed module: allocations outside the loop are shared (recorded)."""

    def __init__(self):
        self.count = 0

    def __getattr__(self, n):
        return getattr(np, n)

    def _alloc(self, shape, dtype):
        if dtype is np.bool_ or dtype is bool:
            return np.zeros(shape, dtype=bool)
        if isinstance(shape, (int, np.integer)):
            shape = (int(shape),)
        if CUR[0] is None:
            self.count += 1
            return RecArray("alloc%d" % self.count, shape)
        return OA(tuple(int(s) for s in shape))

    def zeros(self, shape, dtype=None, **k):
        return self._alloc(shape, dtype)

    def empty(self, shape, dtype=None, **k):
        return self._alloc(shape, dtype)

    def array(self, obj, dtype=None, **k):
        return np.array(obj, dtype=float)

    def sqrt(self, x):
        if isinstance(x, Opaque):
            return Opaque()
        return OA(np.shape(x))

    exp = cos = sin = sqrt

    def cross(self, a, b, **k):
        return OA(np.broadcast(np.asarray(a, dtype=object), np.asarray(b, dtype=object)).shape)

    def atleast_2d(self, a):
        a = np.asarray(a, dtype=object)
        return a.reshape(1, -1).view(OArr) if a.ndim == 1 else a

    def vstack(self, t):
        return OA(np.vstack([np.asarray(x, dtype=object) for x in t]).shape)

    def sum(self, a, **k):
        return Opaque()

    def sort(self, a, **k):
        return a

    def dot(self, a, b):
        return Opaque()

    class _dt:
        def __init__(self, nm):
            self.dtype = np.dtype(nm)

        def __call__(self, x=0):
            return Opaque()

        def type(self, x=0):
            return Opaque()

    float64 = _dt("float64")
    float32 = _dt("float32")
    complex128 = _dt("complex128")
    uint32 = np.uint32
    bool_ = np.bool_


def conflicts(hyps=()):
    """list of (description, z3 formula) for cross-iteration access pairs with >= 1 write."""
    A0 = [a for a in ACCESS if a[0] == 0]
    A1 = [a for a in ACCESS if a[0] == 1]
    out = []
    seen = set()
    keep = []
    for a in A0:
        for c in A1:
            if a[2] != c[2] or "w" not in (a[1], c[1]):
                continue
            comps = []
            ok = True
            for x, y in zip(a[3], c[3]):
                if isinstance(x, slice) or isinstance(y, slice):
                    cx = _slice_overlap(x, y)
                    if cx is None:
                        continue
                    comps.append(cx)
                else:
                    comps.append(L(x) == L(y))
            f = z3.And(*comps) if comps else z3.BoolVal(True)
            sf = z3.simplify(f)
            key = (a[2], a[1], c[1], sf.get_id())
            if key in seen:
                continue
            seen.add(key)
            keep.append(sf)  # keep the AST alive: z3 recycles ids of collected terms
            out.append(("%s: iteration0 %s / iteration1 %s" % (a[2], a[1], c[1]), f))
    return out


def _show(idx):
    return "[" + ", ".join(str(i.t) if isinstance(i, SIx) else str(i) for i in idx) + "]"


def _slice_overlap(x, y):
    """formula for 'index sets overlap' of two index components (ints, SIx or slices)."""
    def rng(s):
        if isinstance(s, slice):
            if s.start is None and s.stop is None:
                return None
            return (L(s.start if s.start is not None else 0), L(s.stop))
        return (L(s), L(s) + 1)

    a, b = rng(x), rng(y)
    if a is None or b is None:
        return None  # full slice: always overlaps in this dimension
    return z3.And(a[0] < b[1], b[0] < a[1])
