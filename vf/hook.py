"""Import hook: every bempp_cl/**.py is recompiled from its *current* source on import, with one AST
rewrite: `import numpy as X` (module level or function-local) -> `from vf.npshim import shim as X`.
Optionally applies an in-memory AST mutation (mutant twins) - never written to disk."""
import ast
import os
import sys
import hashlib
import importlib.machinery as M

sys.dont_write_bytecode = True
REPO = os.environ.get("VF_REPO", "/repo")
LOADED = {}  # path -> sha256 of source
MUTATORS = {}  # path suffix -> callable(tree) -> tree


class _Tx(ast.NodeTransformer):
    def visit_Import(self, node):
        out = []
        for a in node.names:
            if a.name == "numpy":
                out.append(ast.ImportFrom(module="vf.npshim", names=[ast.alias(name="shim", asname=a.asname or "numpy")], level=0))
            else:
                out.append(ast.Import(names=[a]))
        return [ast.copy_location(o, node) for o in out]


_orig = M.SourceFileLoader.get_code


REWRITE_NUMPY = [True]


def _get_code(self, fullname):
    path = self.get_filename(fullname)
    if "/bempp_cl/" in path and path.endswith(".py"):
        src = self.get_data(path)
        LOADED[path] = hashlib.sha256(src).hexdigest()
        tree = ast.parse(src, path)
        if REWRITE_NUMPY[0]:
            tree = _Tx().visit(tree)
        for suffix, mut in MUTATORS.items():
            if path.endswith(suffix):
                tree = mut(tree)
        tree = ast.fix_missing_locations(tree)
        return compile(tree, path, "exec", dont_inherit=True)
    return _orig(self, fullname)


def install():
    if REPO not in sys.path:
        sys.path.insert(0, REPO)
    M.SourceFileLoader.get_code = _get_code


# ---- which repo functions were executed (sys.monitoring, near-zero overhead)
EXECUTED = {}


def trace_start():
    mon = sys.monitoring
    tid = mon.PROFILER_ID
    try:
        mon.use_tool_id(tid, "vf")
    except ValueError:
        return

    def on_start(code, offset):
        fn = code.co_filename
        if "/bempp_cl/" in fn:
            EXECUTED[(fn, code.co_qualname, code.co_firstlineno)] = True
        return mon.DISABLE

    mon.register_callback(tid, mon.events.PY_START, on_start)
    mon.set_events(tid, mon.events.PY_START)


def executed_functions(limit=400):
    """[{function, file, line, sha256-of-source-segment}] for the repo functions executed so far."""
    import linecache

    out = []
    for (fn, qn, ln) in sorted(EXECUTED):
        if qn == "<module>" or qn.startswith("<"):
            continue
        lines = linecache.getlines(fn)
        # segment: from def line to next line with indentation <= def's (cheap approximation)
        seg = []
        if 0 < ln <= len(lines):
            ind = len(lines[ln - 1]) - len(lines[ln - 1].lstrip())
            seg.append(lines[ln - 1])
            started = False
            for l in lines[ln:]:
                s = l.strip()
                if not started and (lines[ln - 1].lstrip().startswith("@")):
                    seg.append(l)
                    if l.lstrip().startswith("def "):
                        started = True
                        ind = len(l) - len(l.lstrip())
                    continue
                if s and (len(l) - len(l.lstrip())) <= ind and not s.startswith(")"):
                    break
                seg.append(l)
        h = hashlib.sha256("".join(seg).encode()).hexdigest()[:16]
        out.append({"function": qn, "file": os.path.relpath(fn, REPO), "line": ln, "sha256_16": h})
    return out[:limit]
