"""Lemma chaining helpers: relations between abstraction atoms that the harness proposes, the solver proves, and
later obligations use as hypotheses."""
import math
import random
from fractions import Fraction
import z3
from .sym import ABS, rv


def _vars(t, acc):
    if z3.is_const(t) and t.decl().kind() == z3.Z3_OP_UNINTERPRETED:
        acc[str(t)] = t
    for c in t.children():
        _vars(c, acc)


def _eval(t, env):
    r = z3.simplify(z3.substitute(t, *env))
    return r.as_fraction() if z3.is_rational_value(r) else None


def _is_square(q):
    n, d = q.numerator, q.denominator
    return n > 0 and math.isqrt(n) ** 2 == n and math.isqrt(d) ** 2 == d


def sqrt_scaling_chain(ctx, family, group, generic_name="lemma/generic-sqrt-scaling"):
    """For every pair of sqrt atoms whose arguments differ by a constant rational square factor q (found by evaluating
    the arguments at random rational points, then PROVED as an obligation arg_j == q * arg_i), return the hypothesis
    r_j == sqrt(q) * r_i.  Its justification is an instance of the generic lemma
        s > 0, a > 0, r >= 0, r^2 = a, r2 >= 0, r2^2 = s^2 a  ==>  r2 = s r
    (proved once as an obligation over fresh reals) with the atoms' defining lemmas as premises."""
    sq = ABS.apps.get("sqrt", [])
    if not getattr(ctx, "_generic_sqrt_done", False):
        ga, gr, gr2, gs = z3.Reals("ga gr gr2 gs")
        ctx.prove(generic_name, gr2 == gs * gr, [gs > 0, ga > 0, gr >= 0, gr * gr == ga, gr2 >= 0, gr2 * gr2 == gs * gs * ga], family=family, params={"lemma": "sqrt(s^2 a) = s sqrt(a)"}, abs_cons=False, group=group)
        ctx._generic_sqrt_done = True
    vs = {}
    for a, _ in sq:
        _vars(a, vs)
    rnd = random.Random(12345)
    envs = [[(v, rv(Fraction(rnd.randint(-40, 40), rnd.randint(1, 9)))) for v in vs.values()] for _ in range(2)]
    vals = []
    for a, _ in sq:
        vals.append([_eval(a, env) for env in envs])
    rep = {}  # index -> (root index, factor sqrt(q))
    hyps = []
    for j in range(len(sq)):
        for i in range(j):
            if i in rep:
                continue
            vi, vj = vals[i], vals[j]
            if None in vi or None in vj or 0 in vi:
                continue
            q0, q1 = vj[0] / vi[0], vj[1] / vi[1]
            if q0 == q1 and _is_square(q0):
                f = Fraction(math.isqrt(q0.numerator), math.isqrt(q0.denominator))
                ident = sq[j][0] == rv(q0) * sq[i][0]
                ctx.prove("lemma/arg-scaling/%s=%s*%s" % (sq[j][1], q0, sq[i][1]), ident, [], family=family, params={"atoms": [str(sq[j][1]), str(sq[i][1])], "factor": str(q0)}, abs_cons=False, group=group)
                hyps.append(sq[j][1] == rv(f) * sq[i][1])
                rep[j] = (i, f)
                break
    return hyps
