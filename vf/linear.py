"""Monomial abstraction: expand polynomial z3 terms to sums of monomials and replace every non-linear
monomial by a fresh real.  The abstraction only forgets relations between monomials, so an `unsat`
(hypotheses |- goal in LRA) is sound for the original non-linear statement."""
from fractions import Fraction
import z3
from .sym import rv


def expand(t):
    """z3 real polynomial term -> {monomial: Fraction}, monomial = tuple of sorted (var name, power)."""
    t = z3.simplify(t, som=True, mul_to_power=False, flat=True, hoist_mul=False, som_blowup=10000000)
    out = {}

    def mono(m):
        c = Fraction(1)
        pw = {}
        stack = [m]
        while stack:
            u = stack.pop()
            if z3.is_rational_value(u):
                c *= u.as_fraction()
            elif z3.is_mul(u):
                stack.extend(u.children())
            elif z3.is_app(u) and u.decl().kind() == z3.Z3_OP_UMINUS:
                c = -c
                stack.append(u.arg(0))
            elif z3.is_app(u) and u.decl().kind() == z3.Z3_OP_POWER and z3.is_rational_value(u.arg(1)):
                n = u.arg(1).as_fraction()
                if n.denominator != 1 or n < 0:
                    raise ValueError("non-polynomial power")
                k = str(u.arg(0))
                pw[k] = pw.get(k, 0) + int(n)
            elif z3.is_const(u) or (z3.is_app(u) and u.decl().kind() == z3.Z3_OP_UNINTERPRETED):
                k = str(u)
                pw[k] = pw.get(k, 0) + 1
            else:
                raise ValueError("not a polynomial: %s" % str(u)[:80])
        return c, tuple(sorted(pw.items()))

    terms = t.children() if z3.is_add(t) else [t]
    for m in terms:
        c, key = mono(m)
        out[key] = out.get(key, Fraction(0)) + c
    return {k: v for k, v in out.items() if v != 0}


def pmul(p, q):
    out = {}
    for k1, c1 in p.items():
        for k2, c2 in q.items():
            d = dict(k1)
            for v, e in k2:
                d[v] = d.get(v, 0) + e
            k = tuple(sorted(d.items()))
            out[k] = out.get(k, Fraction(0)) + c1 * c2
    return {k: v for k, v in out.items() if v != 0}


def lin(p):
    """linear z3 form of an expanded polynomial: one fresh real per monomial."""
    terms = []
    for k, c in p.items():
        if not k:
            terms.append(rv(c))
        else:
            nm = "m!" + "*".join("%s^%d" % (v, e) if e > 1 else v for v, e in k)
            terms.append(rv(c) * z3.Real(nm))
    if not terms:
        return rv(Fraction(0))
    return z3.Sum(terms) if len(terms) > 1 else terms[0]


def split(p, rule_vars):
    """distinct 'coefficient monomials' (factors not in rule_vars) occurring in p."""
    out = set()
    for k in p:
        out.add(tuple((v, e) for v, e in k if v not in rule_vars))
    return out
