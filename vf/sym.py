"""Symbolic scalar proxies over z3 terms, abstraction of irrational functions, path explorer.

SR  : real-valued rational function  (numerator z3 term / multiset of atomic denominator factors),
      constants are kept as exact Fractions and folded before reaching z3.
SC  : complex number as a pair of SR.
SI  : integer (z3 Int term or Python int).
SB  : boolean; bool(SB) forks through the active Explorer.
"""
import os
from fractions import Fraction
import numpy as np
import z3


_NUM = (int, float, Fraction, np.integer, np.floating, bool, np.bool_)


class Inconclusive(Exception):
    """Raised when the symbolic run leaves the fragment the engine models."""


# ----------------------------------------------------------------------------- constants
_rv_cache = {}


def rv(fr):
    """z3 RealVal of a Fraction (cached)."""
    r = _rv_cache.get(fr)
    if r is None:
        r = z3.RealVal(str(fr))
        _rv_cache[fr] = r
    return r


def lift_float(x):
    """Float -> rational: the small rational it was written as (q<=10^4) if that reproduces
    the double exactly, else the exact binary rational."""
    x = float(x)
    if x != x or x in (float("inf"), float("-inf")):
        raise Inconclusive("non-finite float constant")
    f = Fraction(x)
    g = f.limit_denominator(10000)
    if float(g) == x:
        return g
    return f


def to_fraction(o):
    if isinstance(o, Fraction):
        return o
    if isinstance(o, (bool, np.bool_)):
        return Fraction(int(o))
    if isinstance(o, (int, np.integer)):
        return Fraction(int(o))
    if isinstance(o, (float, np.floating)):
        return lift_float(o)
    raise TypeError(type(o))


# ----------------------------------------------------------------------------- abstraction
class Abs:
    """Registry of applications of sqrt/exp/cos/sin/inv: each distinct (simplified) argument
    gets one fresh real, with sound lemmas; congruence is added pairwise on demand."""

    def __init__(self):
        self.reset()

    def reset(self):
        self.apps = {}
        self.cons = []
        self.n = 0
        self.nonzero = []  # denominators assumed non-zero (recorded assumption)
        self._uncond = {}
        self.defs = {}  # atom name -> (op, arg, [defining lemmas])
        self.pair = []  # (frozenset(atom names), lemma) relating two atoms

    def lookup(self, op, arg):
        for a, r in self.apps.setdefault(op, []):
            if a.eq(arg):
                return r
        return None

    def app(self, op, arg):
        arg = z3.simplify(arg, som=True, mul_to_power=False)
        if z3.is_rational_value(arg):
            v = arg.as_fraction()
            if op == "inv" and v != 0:
                return rv(1 / v)
            if op == "sqrt" and v >= 0:
                n, d = v.numerator, v.denominator
                import math

                if math.isqrt(n) ** 2 == n and math.isqrt(d) ** 2 == d:
                    return rv(Fraction(math.isqrt(n), math.isqrt(d)))
            if op == "exp" and v == 0:
                return rv(Fraction(1))
            if op == "cos" and v == 0:
                return rv(Fraction(1))
            if op == "sin" and v == 0:
                return rv(Fraction(0))
        if op == "inv":
            if z3.is_mul(arg):
                r = rv(Fraction(1))
                for c in arg.children():
                    r = r * self.app("inv", c)
                return r
            if z3.is_app(arg) and arg.decl().kind() == z3.Z3_OP_UMINUS:
                return -self.app("inv", arg.arg(0))
        r = self.lookup(op, arg)
        if r is not None:
            return r
        self.n += 1
        name = f"{op}!{self.n}"
        r = z3.Real(name)
        # lemmas relating to earlier applications
        if op in ("exp", "cos", "sin"):
            neg = z3.simplify(-arg, som=True, mul_to_power=False)
            o = self.lookup(op, neg)
            if o is not None:
                if op == "exp":
                    lem = r * o == 1
                elif op == "cos":
                    lem = r == o
                else:
                    lem = r == -o
                self.cons.append(lem)
                self.pair.append((frozenset([name, str(o)]), lem))
        self.apps[op].append((arg, r))
        mine = []
        if op == "sqrt":
            mine = [r >= 0, z3.Implies(arg >= 0, r * r == arg)]
        elif op == "inv":
            mine = [z3.Implies(arg != 0, r * arg == 1)]
        elif op == "exp":
            mine = [r > 0]
        elif op == "abs":
            mine = [r >= 0, r * r == arg * arg, z3.Or(r == arg, r == -arg)]
        elif op in ("cos", "sin"):
            other = self.lookup("sin" if op == "cos" else "cos", arg)
            if other is not None:
                lem = r * r + other * other == 1
                self.cons.append(lem)
                self.pair.append((frozenset([name, str(other)]), lem))
            mine = [r <= 1, r >= -1]
        self.cons += mine
        self.defs[name] = (op, arg, mine)
        return r

    def congruence(self):
        """a=b -> f(a)=f(b) for all pairs of applications of the same function."""
        out = []
        for op, lst in self.apps.items():
            for i in range(len(lst)):
                for j in range(i + 1, len(lst)):
                    out.append(z3.Implies(lst[i][0] == lst[j][0], lst[i][1] == lst[j][1]))
        return out

    def all_cons(self, congruence=True):
        return list(self.cons) + (self.congruence() if congruence else [])

    def atoms_in(self, terms):
        """names of abstraction atoms occurring in the terms, closed under the atoms' arguments."""
        found = set()
        seen = set()
        stack = list(terms)
        while stack:
            e = stack.pop()
            i = e.get_id()
            if i in seen:
                continue
            seen.add(i)
            if z3.is_const(e) and e.decl().kind() == z3.Z3_OP_UNINTERPRETED:
                nm = e.decl().name()
                if nm in self.defs and nm not in found:
                    found.add(nm)
                    stack.append(self.defs[nm][1])
            else:
                stack.extend(e.children())
        return found

    def cons_for(self, terms, congruence=True):
        """lemmas (and congruence) restricted to the atoms in the cone of influence of `terms`."""
        names = self.atoms_in(terms)
        out = []
        for nm in sorted(names):
            out += self.defs[nm][2]
        for ns, lem in self.pair:
            if ns <= names:
                out.append(lem)
        if congruence:
            byop = {}
            for nm in sorted(names):
                op, arg, _ = self.defs[nm]
                byop.setdefault(op, []).append((arg, z3.Real(nm)))
            for op, lst in byop.items():
                for i in range(len(lst)):
                    for j in range(i + 1, len(lst)):
                        out.append(z3.Implies(lst[i][0] == lst[j][0], lst[i][1] == lst[j][1]))
                        # parity / reciprocity lemmas for arguments that are negatives of each other
                        if op == "cos":
                            out.append(z3.Implies(lst[i][0] == -lst[j][0], lst[i][1] == lst[j][1]))
                        elif op == "sin":
                            out.append(z3.Implies(lst[i][0] == -lst[j][0], lst[i][1] == -lst[j][1]))
                        elif op == "exp":
                            out.append(z3.Implies(lst[i][0] == -lst[j][0], lst[i][1] * lst[j][1] == 1))
        return out

    def sqrt_args(self, names=None):
        return [arg for nm, (op, arg, _) in self.defs.items() if op == "sqrt" and (names is None or nm in names)]


ABS = Abs()

# mode: 'rational' -> factored denominators; 'atoms' -> x/y = x*inv(y) with guarded definition
MODE = {"div": "rational"}


# ----------------------------------------------------------------------------- factor helpers
def _mono(tm):
    c = Fraction(1)
    f = {}
    for x in tm.children() if z3.is_mul(tm) else [tm]:
        if z3.is_rational_value(x):
            c *= x.as_fraction()
        elif z3.is_app(x) and x.decl().kind() == z3.Z3_OP_UMINUS:
            c *= -1
            a = x.arg(0)
            k = a.get_id()
            f[k] = (a, f.get(k, (a, 0))[1] + 1)
        else:
            k = x.get_id()
            f[k] = (x, f.get(k, (x, 0))[1] + 1)
    return c, f


def _factors(term):
    """split a real term into (coeff, {id:(atom,power)}): products are split, sums have their
    common monomial content extracted."""
    term = z3.simplify(term, som=True, mul_to_power=False)
    coeff = [Fraction(1)]
    fac = {}

    def addf(e, p=1):
        k = e.get_id()
        fac[k] = (e, fac.get(k, (e, 0))[1] + p)

    def walk(t):
        if z3.is_rational_value(t):
            coeff[0] *= t.as_fraction()
            return
        if z3.is_mul(t):
            for c in t.children():
                walk(c)
            return
        if z3.is_app(t) and t.decl().kind() == z3.Z3_OP_UMINUS:
            coeff[0] *= -1
            walk(t.arg(0))
            return
        if z3.is_add(t):
            terms = [_mono(tm) for tm in t.children()]
            common = dict(terms[0][1])
            for _, f in terms[1:]:
                common = {k: (e, min(p, f[k][1])) for k, (e, p) in common.items() if k in f}
            # normalise leading coefficient so that a and -a share the factor
            lead = terms[0][0]
            rest = rv(Fraction(0))
            for c0, f in terms:
                t2 = rv(c0 / lead)
                for k, (e, p) in f.items():
                    for _ in range(p - common.get(k, (e, 0))[1]):
                        t2 = t2 * e
                rest = rest + t2
            coeff[0] *= lead
            for k, (e, p) in common.items():
                addf(e, p)
            addf(z3.simplify(rest, som=True, mul_to_power=False))
            return
        addf(t)

    walk(term)
    return coeff[0], fac


def _prod(fac):
    r = None
    for k, (e, p) in fac.items():
        for _ in range(p):
            r = e if r is None else r * e
    return rv(Fraction(1)) if r is None else r


def _lcm(d1, d2):
    if not d2:
        return d1
    if not d1:
        return d2
    out = dict(d1)
    for k, (e, p) in d2.items():
        q = out.get(k)
        if q is None or q[1] < p:
            out[k] = (e, p)
    return out


def _quot(L, d):
    if L is d:
        return {}
    out = {}
    for k, (e, p) in L.items():
        q = p - d.get(k, (e, 0))[1]
        if q > 0:
            out[k] = (e, q)
    return out


# ----------------------------------------------------------------------------- explorer
class _Restart(BaseException):
    pass


class DeadPath(BaseException):
    """raised inside Explorer.decide when the current path condition is unsatisfiable (not an Exception: code under
    analysis that catches Exception must not swallow it)."""


class Explorer:
    """Depth-first path exploration by re-execution with a decision prefix."""

    current = None

    def __init__(self, assume=(), max_paths=2000, solver_timeout_ms=5000):
        self.assume = list(assume)
        self.max_paths = max_paths
        self.timeout = solver_timeout_ms
        self.paths = 0
        self.exhausted = False
        self.feas_queries = 0
        self.unknown_feas = 0

    def _new_solver(self):
        s = z3.Solver()
        s.set("timeout", self.timeout)
        for a in self.assume:
            s.add(a)
        return s

    def _feasible(self, t):
        self.solver.push()
        self.solver.add(t)
        for c in ABS.cons_for([t] + self.assume + self.pc, False):
            self.solver.add(c)
        r = self.solver.check()
        self.solver.pop()
        self.feas_queries += 1
        if r == z3.unknown:
            self.unknown_feas += 1
        return r != z3.unsat

    def decide(self, t):
        if self.pos < len(self.prefix):
            v = self.prefix[self.pos]
            if not isinstance(v, bool):
                raise Inconclusive("non-deterministic re-execution (decision kinds differ)")
        else:
            keep = [z3.simplify(c) for c in self.assume + self.pc]  # keep the ASTs alive: ids are recycled after GC
            ts, tn = z3.simplify(t), z3.simplify(z3.Not(t))
            if any(ts.eq(c) for c in keep):
                okT, okF = True, False
            elif any(tn.eq(c) for c in keep):
                okT, okF = False, True
            else:
                okT = self._feasible(t)
                okF = self._feasible(z3.Not(t))
            if okT and okF:
                v = True
                self.open.append(len(self.prefix))
            elif okT:
                v = True
            elif okF:
                v = False
            else:
                # the path condition itself is unsatisfiable: an earlier feasibility query timed out (unknown is treated as
                # feasible, a sound over-approximation) and led down a branch no input can take - abandon this path
                raise DeadPath()
            self.prefix.append(v)
        self.pos += 1
        c = t if v else z3.Not(t)
        self.solver.add(c)
        self.pc.append(c)
        return v

    def choose(self, v):
        """concretise the integer term v: fork over its feasible values (the value tried is stored in
        the decision prefix so that re-execution is deterministic)."""
        for _ in range(256):
            if self.pos < len(self.prefix):
                e = self.prefix[self.pos]
                if isinstance(e, bool):
                    raise Inconclusive("non-deterministic re-execution (decision kinds differ)")
                _, m, b = e
            else:
                if self.solver.check() != z3.sat:
                    raise Inconclusive("cannot concretise (path condition not sat)")
                m = self.solver.model().eval(v, model_completion=True).as_long()
                b = True
                if self._feasible(v != m):
                    self.open.append(len(self.prefix))
                self.prefix.append(("val", m, True))
            self.pos += 1
            c = (v == m) if b else (v != m)
            self.solver.add(c)
            self.pc.append(c)
            if b:
                return m
        raise Inconclusive("too many values for a symbolic int")

    def run(self, fn):
        """yield (path_condition list, result or exception) for every feasible path of fn()."""
        stack = [[]]
        results = []
        prev = Explorer.current
        Explorer.current = self
        try:
            while stack:
                if self.paths >= self.max_paths:
                    self.exhausted = True
                    raise Inconclusive("path budget exhausted")
                pre = stack.pop()
                self.prefix = list(pre)
                self.pos = 0
                self.open = []
                self.pc = []
                self.solver = self._new_solver()
                dead = False
                try:
                    out = fn()
                    exc = None
                except DeadPath:
                    dead = True
                except Inconclusive:
                    raise
                except Exception as e:  # the code under analysis raised on this path
                    out = None
                    exc = e
                if dead:
                    self.dead_paths = getattr(self, "dead_paths", 0) + 1
                else:
                    self.paths += 1
                    results.append((list(self.pc), out, exc))
                for idx in self.open:
                    e = self.prefix[idx]
                    stack.append(self.prefix[:idx] + [False if isinstance(e, bool) else ("val", e[1], False)])
        finally:
            Explorer.current = prev
        return results


def _decide(t):
    t = z3.simplify(t)
    if z3.is_true(t):
        return True
    if z3.is_false(t):
        return False
    ex = Explorer.current
    if ex is None:
        raise Inconclusive("branch on symbolic condition outside an Explorer: %s" % str(t)[:200])
    return ex.decide(t)


class SB:
    __slots__ = ("t",)

    def __init__(self, t):
        self.t = t

    def __bool__(self):
        return _decide(self.t)

    def __and__(self, o):
        return SB(z3.And(self.t, sb_term(o)))

    __rand__ = __and__

    def __or__(self, o):
        return SB(z3.Or(self.t, sb_term(o)))

    __ror__ = __or__

    def __invert__(self):
        return SB(z3.Not(self.t))

    def __repr__(self):
        return "SB(%s)" % str(self.t)[:80]


def sb_term(o):
    if isinstance(o, SB):
        return o.t
    return z3.BoolVal(bool(o))


# ----------------------------------------------------------------------------- SR
class SR:
    """c (Fraction) if constant, else t (z3 real term) over denominator multiset d."""

    __slots__ = ("c", "t", "d")
    __array_ufunc__ = None  # numpy arrays/scalars defer binary operations to the proxy

    def __init__(self, t=None, d=None, c=None):
        self.c = c
        self.t = t
        self.d = d or {}

    @staticmethod
    def const(fr):
        return SR(c=Fraction(fr))

    @staticmethod
    def var(name):
        return SR(z3.Real(name))

    @staticmethod
    def lift(o):
        if isinstance(o, SR):
            return o
        if isinstance(o, SI):
            if isinstance(o.v, int):
                return SR(c=Fraction(o.v))
            return SR(z3.ToReal(o.v))
        if isinstance(o, _NUM):
            return SR(c=to_fraction(o))
        raise TypeError("cannot lift %r to SR" % type(o))

    # z3 numerator term
    def num(self):
        return rv(self.c) if self.c is not None else self.t

    def is_const(self):
        return self.c is not None

    def plain(self):
        """single z3 term, denominators as inverse atoms."""
        if self.c is not None:
            return rv(self.c)
        t = self.t
        for k, (e, p) in self.d.items():
            iv = ABS.app("inv", e)
            for _ in range(p):
                t = t * iv
        return t

    # -- arithmetic
    def _add(self, o):
        if self.c is not None and o.c is not None:
            return SR(c=self.c + o.c)
        if self.c is not None and self.c == 0:
            return o
        if o.c is not None and o.c == 0:
            return self
        if not self.d and not o.d:
            return SR(self.num() + o.num())
        L = _lcm(self.d, o.d)
        a = self.num()
        q = _quot(L, self.d)
        if q:
            a = a * _prod(q)
        b = o.num()
        q = _quot(L, o.d)
        if q:
            b = b * _prod(q)
        return SR(a + b, L)

    def _mul(self, o):
        if self.c is not None:
            if o.c is not None:
                return SR(c=self.c * o.c)
            if self.c == 0:
                return self
            if self.c == 1:
                return o
            return SR(rv(self.c) * o.t, o.d)
        if o.c is not None:
            if o.c == 0:
                return o
            if o.c == 1:
                return self
            return SR(self.t * rv(o.c), self.d)
        if not o.d:
            return SR(self.t * o.t, self.d)
        d = dict(self.d)
        for k, (e, p) in o.d.items():
            d[k] = (e, d.get(k, (e, 0))[1] + p)
        return SR(self.t * o.t, d)

    def _recip(self):
        if self.c is not None:
            if self.c == 0:
                # the regular kernel does evaluate 1/0 on skipped pairs; keep it symbolic
                return SR(ABS.app("inv", rv(Fraction(0))))
            return SR(c=1 / self.c)
        if MODE["div"] == "atoms":
            return SR(ABS.app("inv", self.plain()))
        c, fac = _factors(self.t)
        if c == 0:
            return SR(ABS.app("inv", rv(Fraction(0))))
        for k, (e, p) in fac.items():
            ABS.nonzero.append(e)
        num = SR(c=1 / c)
        if self.d:
            num = SR(rv(1 / c) * _prod(self.d))
        if num.c is not None:
            return SR(rv(num.c), fac)
        return SR(num.t, fac)

    def _coerce(self, o):
        if isinstance(o, SR):
            return o
        if isinstance(o, _NUM):
            return SR(c=to_fraction(o))
        if isinstance(o, SI):
            return SR.lift(o)
        return None

    def __add__(self, o):
        if isinstance(o, (SC, complex, np.complexfloating)):
            return SC.lift(self) + o
        o2 = self._coerce(o)
        if o2 is None:
            return NotImplemented
        return self._add(o2)

    __radd__ = __add__

    def __sub__(self, o):
        if isinstance(o, (SC, complex, np.complexfloating)):
            return SC.lift(self) - o
        o2 = self._coerce(o)
        if o2 is None:
            return NotImplemented
        return self._add(o2._mul(_MINUS1))

    def __rsub__(self, o):
        if isinstance(o, (SC, complex, np.complexfloating)):
            return SC.lift(o) - self
        o2 = self._coerce(o)
        if o2 is None:
            return NotImplemented
        return o2._add(self._mul(_MINUS1))

    def __mul__(self, o):
        if isinstance(o, (SC, complex, np.complexfloating)):
            return SC.lift(self) * o
        o2 = self._coerce(o)
        if o2 is None:
            return NotImplemented
        return self._mul(o2)

    __rmul__ = __mul__

    def __truediv__(self, o):
        if isinstance(o, (SC, complex, np.complexfloating)):
            return SC.lift(self) / o
        o2 = self._coerce(o)
        if o2 is None:
            return NotImplemented
        return self._mul(o2._recip())

    def __rtruediv__(self, o):
        if isinstance(o, (SC, complex, np.complexfloating)):
            return SC.lift(o) / self
        o2 = self._coerce(o)
        if o2 is None:
            return NotImplemented
        return o2._mul(self._recip())

    def __neg__(self):
        return self._mul(_MINUS1)

    def __pos__(self):
        return self

    def __abs__(self):
        if self.c is not None:
            return SR(c=abs(self.c))
        return SR(ABS.app("abs", self.plain()))

    def __pow__(self, n):
        if isinstance(n, (float, np.floating)) and float(n) == 0.5:
            return self.sqrt()
        if isinstance(n, (float, np.floating)) and float(n).is_integer():
            n = int(n)
        if not isinstance(n, (int, np.integer)):
            raise Inconclusive("non-integer power")
        n = int(n)
        if n == 0:
            return SR(c=Fraction(1))
        if n < 0:
            return (self ** (-n))._recip()
        r = self
        for _ in range(n - 1):
            r = r._mul(self)
        return r

    def sqrt(self):
        if self.c is not None:
            return SR(ABS.app("sqrt", rv(self.c)))._norm()
        return SR(ABS.app("sqrt", self.plain()))

    def sqrt_of_sum_of_squares(self):
        """sqrt of a term that is a sum of squares of reals by construction (norms): the lemma r*r == arg is unconditional."""
        r = self.sqrt()
        if r.c is None and not r.d and z3.is_const(r.t):
            nm = r.t.decl().name()
            if nm in ABS.defs and not ABS._uncond.get(nm):
                ABS._uncond[nm] = True
                arg = ABS.defs[nm][1]
                lem = r.t * r.t == arg
                ABS.defs[nm][2].append(lem)
                ABS.cons.append(lem)
        return r

    def _fn(self, op):
        return SR(ABS.app(op, self.plain()))._norm()

    def exp(self):
        return self._fn("exp")

    def cos(self):
        return self._fn("cos")

    def sin(self):
        return self._fn("sin")

    def _norm(self):
        if self.c is None and z3.is_rational_value(self.t) and not self.d:
            return SR(c=self.t.as_fraction())
        return self

    def conjugate(self):
        return self

    conj = conjugate

    @property
    def real(self):
        return self

    @property
    def imag(self):
        return SR(c=Fraction(0))

    # -- comparisons (fork through the explorer)
    def _cmp(self, o, op):
        if isinstance(o, (SC, complex, np.complexfloating)):
            o = SC.lift(o)
            s = SC.lift(self)
            if op == "eq":
                return s == o
            if op == "ne":
                return s != o
            raise TypeError("ordering of complex")
        o2 = self._coerce(o)
        if o2 is None:
            return NotImplemented
        if self.c is not None and o2.c is not None:
            return {"lt": self.c < o2.c, "le": self.c <= o2.c, "gt": self.c > o2.c, "ge": self.c >= o2.c, "eq": self.c == o2.c, "ne": self.c != o2.c}[op]
        a, b = self.plain(), o2.plain()
        t = {"lt": a < b, "le": a <= b, "gt": a > b, "ge": a >= b, "eq": a == b, "ne": a != b}[op]
        return SB(t)

    def __lt__(self, o):
        return self._cmp(o, "lt")

    def __le__(self, o):
        return self._cmp(o, "le")

    def __gt__(self, o):
        return self._cmp(o, "gt")

    def __ge__(self, o):
        return self._cmp(o, "ge")

    def __eq__(self, o):
        return self._cmp(o, "eq")

    def __ne__(self, o):
        return self._cmp(o, "ne")

    def __hash__(self):
        return id(self)

    def __float__(self):
        if self.c is not None:
            return float(self.c)
        raise Inconclusive("float() of a symbolic real")

    def __int__(self):
        if self.c is not None and self.c.denominator == 1:
            return int(self.c)
        raise Inconclusive("int() of a symbolic real")

    __index__ = __int__

    def __repr__(self):
        if self.c is not None:
            return "SR(%s)" % self.c
        return "SR(%s%s)" % (str(self.t)[:60].replace("\n", " "), " /..." if self.d else "")


def _arrayize(cls):
    """binary operators with an ndarray operand act elementwise (the proxy opts out of NumPy's ufunc
    dispatch, so this is where `scalar op array` and `array op scalar` are defined)."""
    import operator

    def wrap(name):
        f = getattr(cls, name, None)
        if f is None:
            return

        def g(self, o):
            if isinstance(o, np.ndarray):
                if o.ndim == 0:
                    return f(self, o.item())
                out = np.empty(o.shape, dtype=object)
                fo = out.reshape(-1)
                fi = o.reshape(-1)
                for i in range(fi.shape[0]):
                    r = f(self, fi[i])
                    if r is NotImplemented:
                        return NotImplemented
                    fo[i] = r
                from .npshim import SA

                return out.view(SA)
            return f(self, o)

        g.__name__ = name
        setattr(cls, name, g)

    for nm in ("__add__", "__radd__", "__sub__", "__rsub__", "__mul__", "__rmul__", "__truediv__", "__rtruediv__", "__lt__", "__le__", "__gt__", "__ge__", "__eq__", "__ne__", "__floordiv__", "__mod__"):
        wrap(nm)
    return cls


_MINUS1 = SR(c=Fraction(-1))
ZERO = SR(c=Fraction(0))
ONE = SR(c=Fraction(1))


# ----------------------------------------------------------------------------- SC
class SC:
    __slots__ = ("re", "im")
    __array_ufunc__ = None

    def __init__(self, re, im=0):
        self.re = SR.lift(re)
        self.im = SR.lift(im)

    @staticmethod
    def lift(o):
        if isinstance(o, SC):
            return o
        if isinstance(o, (complex, np.complexfloating)):
            o = complex(o)
            return SC(o.real, o.imag)
        return SC(SR.lift(o), ZERO)

    def _co(self, o):
        if isinstance(o, np.ndarray):
            return None
        try:
            return SC.lift(o)
        except TypeError:
            return None

    def __add__(self, o):
        o = self._co(o)
        if o is None:
            return NotImplemented
        return SC(self.re + o.re, self.im + o.im)

    __radd__ = __add__

    def __sub__(self, o):
        o = self._co(o)
        if o is None:
            return NotImplemented
        return SC(self.re - o.re, self.im - o.im)

    def __rsub__(self, o):
        o = self._co(o)
        if o is None:
            return NotImplemented
        return SC(o.re - self.re, o.im - self.im)

    def __mul__(self, o):
        o = self._co(o)
        if o is None:
            return NotImplemented
        return SC(self.re * o.re - self.im * o.im, self.re * o.im + self.im * o.re)

    __rmul__ = __mul__

    def __neg__(self):
        return SC(-self.re, -self.im)

    def __pos__(self):
        return self

    def inv(self):
        d = self.re * self.re + self.im * self.im
        return SC(self.re / d, -(self.im / d))

    def __truediv__(self, o):
        o = self._co(o)
        if o is None:
            return NotImplemented
        if o.im.c is not None and o.im.c == 0:
            return SC(self.re / o.re, self.im / o.re)
        return self * o.inv()

    def __rtruediv__(self, o):
        o = self._co(o)
        if o is None:
            return NotImplemented
        return o * self.inv()

    def __pow__(self, n):
        n = int(n)
        if n == 0:
            return SC(ONE, ZERO)
        if n < 0:
            return (self ** (-n)).inv()
        r = self
        for _ in range(n - 1):
            r = r * self
        return r

    def conjugate(self):
        return SC(self.re, -self.im)

    conj = conjugate

    def exp(self):
        e = self.re.exp()
        return SC(e * self.im.cos(), e * self.im.sin())

    @property
    def real(self):
        return self.re

    @property
    def imag(self):
        return self.im

    def __abs__(self):
        return (self.re * self.re + self.im * self.im).sqrt_of_sum_of_squares()

    def __eq__(self, o):
        o = self._co(o)
        if o is None:
            return NotImplemented
        a, b = self.re == o.re, self.im == o.im
        if isinstance(a, bool) and isinstance(b, bool):
            return a and b
        return SB(z3.And(sb_term(a), sb_term(b)))

    def __ne__(self, o):
        r = self.__eq__(o)
        if r is NotImplemented:
            return r
        if isinstance(r, bool):
            return not r
        return ~r

    def __hash__(self):
        return id(self)

    def __complex__(self):
        return complex(float(self.re), float(self.im))

    def __repr__(self):
        return "SC(%r, %r)" % (self.re, self.im)


# ----------------------------------------------------------------------------- SI
class SI:
    """symbolic integer: v is a z3 Int term."""

    __slots__ = ("v",)
    __array_ufunc__ = None

    def __init__(self, v):
        self.v = v

    @staticmethod
    def var(name):
        return SI(z3.Int(name))

    @staticmethod
    def term(o):
        if isinstance(o, SI):
            return o.v
        if isinstance(o, (int, np.integer, bool, np.bool_)):
            return z3.IntVal(int(o))
        raise TypeError(type(o))

    def _bin(self, o, f):
        if isinstance(o, (SR, SC, float, np.floating, Fraction, complex)):
            return NotImplemented
        try:
            return SI(f(self.v, SI.term(o)))
        except TypeError:
            return NotImplemented

    def __add__(self, o):
        if isinstance(o, (SR, float, np.floating, Fraction)):
            return SR.lift(self) + o
        return self._bin(o, lambda a, b: a + b)

    __radd__ = __add__

    def __sub__(self, o):
        if isinstance(o, (SR, float, np.floating, Fraction)):
            return SR.lift(self) - o
        return self._bin(o, lambda a, b: a - b)

    def __rsub__(self, o):
        return self._bin(o, lambda a, b: b - a)

    def __mul__(self, o):
        if isinstance(o, (SR, float, np.floating, Fraction)):
            return SR.lift(self) * o
        if isinstance(o, SI) and not z3.is_int_value(z3.simplify(o.v)) and not z3.is_int_value(z3.simplify(self.v)) and Explorer.current is not None:
            # non-linear integer product: concretise one factor (fork over its values) to stay in LIA
            return SI(z3.IntVal(self.concretize()) * o.v)
        return self._bin(o, lambda a, b: a * b)

    __rmul__ = __mul__

    def __floordiv__(self, o):
        return self._bin(o, lambda a, b: a / b)  # z3 Int division is floor for positive divisor

    def __mod__(self, o):
        return self._bin(o, lambda a, b: a % b)

    def __neg__(self):
        return SI(-self.v)

    def __truediv__(self, o):
        return SR.lift(self) / o

    def __rtruediv__(self, o):
        return SR.lift(o) / SR.lift(self)

    def __pow__(self, n):
        n = int(n)
        r = self
        for _ in range(n - 1):
            r = r * self
        return r

    def _cmp(self, o, f):
        if isinstance(o, (SR, float, np.floating, Fraction)):
            return getattr(SR.lift(self), f)(o)
        try:
            b = SI.term(o)
        except TypeError:
            return NotImplemented
        a = self.v
        t = {"__lt__": a < b, "__le__": a <= b, "__gt__": a > b, "__ge__": a >= b, "__eq__": a == b, "__ne__": a != b}[f]
        return SB(t)

    def __lt__(self, o):
        return self._cmp(o, "__lt__")

    def __le__(self, o):
        return self._cmp(o, "__le__")

    def __gt__(self, o):
        return self._cmp(o, "__gt__")

    def __ge__(self, o):
        return self._cmp(o, "__ge__")

    def __eq__(self, o):
        return self._cmp(o, "__eq__")

    def __ne__(self, o):
        return self._cmp(o, "__ne__")

    def __hash__(self):
        return 0  # constant: dict/set lookups must fall through to __eq__ (which forks)

    def concretize(self):
        """fork over the feasible values (used for list/dict indexing)."""
        ex = Explorer.current
        if ex is None:
            raise Inconclusive("int() of symbolic int outside an Explorer")
        v = z3.simplify(self.v)
        if z3.is_int_value(v):
            return v.as_long()
        return ex.choose(self.v)

    def __int__(self):
        return self.concretize()

    __index__ = __int__

    def __repr__(self):
        return "SI(%s)" % str(self.v)[:60]


_arrayize(SR)
_arrayize(SC)
_arrayize(SI)


# ----------------------------------------------------------------------------- helpers
def term(x):
    """z3 real term of a scalar (SR/number); rational-function SRs are rendered with inverse atoms."""
    if isinstance(x, SR):
        return x.plain()
    if isinstance(x, SI):
        return z3.ToReal(x.v)
    return rv(to_fraction(x))


def cterm(x):
    x = SC.lift(x)
    return term(x.re), term(x.im)


def cross_eq(a, b):
    """z3 formula a == b for two SR, cross-multiplied over the lcm of their denominators
    (pure polynomial identity; denominators assumed non-zero)."""
    a = SR.lift(a)
    b = SR.lift(b)
    if not a.d and not b.d:
        return a.num() == b.num()
    L = _lcm(a.d, b.d)
    x = a.num()
    q = _quot(L, a.d)
    if q:
        x = x * _prod(q)
    y = b.num()
    q = _quot(L, b.d)
    if q:
        y = y * _prod(q)
    return x == y


def eq_formula(a, b):
    """equality of two scalars (real or complex) as a z3 formula."""
    if isinstance(a, (SC, complex, np.complexfloating)) or isinstance(b, (SC, complex, np.complexfloating)):
        a = SC.lift(a)
        b = SC.lift(b)
        return z3.And(cross_eq(a.re, b.re), cross_eq(a.im, b.im))
    return cross_eq(SR.lift(a), SR.lift(b))
