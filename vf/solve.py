"""Solver portfolio: z3 (5.x, Python API) and cvc5 (1.4 wheel) on SMT-LIB2 text, in killable worker
processes, with escalating budgets.  A verdict is only 'unsat'/'sat' when a solver said so and no other
solver said the opposite; errors, timeouts and disagreements are 'unknown'/'conflict' (inconclusive)."""
import multiprocessing as mp
import os
import time
import random
from fractions import Fraction

NPROC = int(os.environ.get("VF_NPROC", "16"))


# ----------------------------------------------------------------------------- workers
def _run_z3(text, tl, tactic=None):
    import z3

    ctx = z3.Context()
    if tactic:
        s = z3.Tactic(tactic, ctx=ctx).solver()
    else:
        s = z3.Solver(ctx=ctx)
    s.set("timeout", int(tl * 1000))
    s.from_string(text)
    r = s.check()
    if r == z3.unsat:
        return "unsat", None
    if r == z3.sat:
        m = s.model()
        mod = {}
        for d in m.decls():
            if d.arity() == 0:
                mod[d.name()] = str(m[d])
        return "sat", mod
    return "unknown", s.reason_unknown()


def _run_cvc5(text, tl):
    import cvc5

    slv = cvc5.Solver()
    slv.setOption("tlimit-per", str(int(tl * 1000)))
    slv.setOption("produce-models", "true")
    p = cvc5.InputParser(slv)
    txt = text
    if "(set-logic" not in txt:
        txt = "(set-logic ALL)\n" + txt
    p.setStringInput(cvc5.InputLanguage.SMT_LIB_2_6, txt, "q")
    sm = p.getSymbolManager()
    res = None
    while True:
        cmd = p.nextCommand()
        if cmd.isNull():
            break
        out = cmd.invoke(slv, sm)
        o = out.strip()
        if o:
            if "error" in o.lower():
                return "unknown", "cvc5 error: " + o[:200]
            res = o
    if res in ("unsat", "sat"):
        mod = None
        if res == "sat":
            mod = {}
            try:
                for t in sm.getDeclaredTerms():
                    if t.getSort().isReal() or t.getSort().isInteger() or t.getSort().isBoolean():
                        mod[str(t)] = str(slv.getValue(t))
            except Exception as e:  # model is a convenience only
                mod = {"_model_error": str(e)[:100]}
        return res, mod
    return "unknown", res


def _frac_of_z3(v):
    import z3

    if z3.is_rational_value(v):
        return v.as_fraction()
    if z3.is_int_value(v):
        return Fraction(v.as_long())
    return None


def _run_ground(text, tl, seed):
    """seeded ground instantiation: substitute small rationals for every real/int constant and fixed
    polynomials for every uninterpreted function; a TRUE conjunction is a model (sat)."""
    import z3

    t0 = time.time()
    ctx = z3.Context()
    asserts = z3.parse_smt2_string(text, ctx=ctx)
    conj = z3.And(*asserts) if len(asserts) else z3.BoolVal(True, ctx)
    consts = {}
    funs = {}

    seen = set()
    stack = [conj]
    while stack:
        e = stack.pop()
        if e.get_id() in seen:
            continue
        seen.add(e.get_id())
        if z3.is_app(e):
            d = e.decl()
            if d.kind() == z3.Z3_OP_UNINTERPRETED:
                if d.arity() == 0:
                    consts[d.name()] = e
                else:
                    funs[d.name()] = d
            stack.extend(e.children())
    rng = random.Random(seed)
    tries = 0
    while time.time() - t0 < tl and tries < 8:
        tries += 1
        subs = []
        mod = {}
        for nm in sorted(consts):
            c = consts[nm]
            if c.sort().kind() == z3.Z3_REAL_SORT:
                v = Fraction(rng.randint(-9, 9) or 1, rng.randint(1, 5))
                subs.append((c, z3.RealVal(str(v), ctx)))
                mod[nm] = str(v)
            elif c.sort().kind() == z3.Z3_INT_SORT:
                v = rng.randint(0, 5)
                subs.append((c, z3.IntVal(v, ctx)))
                mod[nm] = str(v)
            elif c.sort().kind() == z3.Z3_BOOL_SORT:
                v = rng.random() < 0.5
                subs.append((c, z3.BoolVal(v, ctx)))
                mod[nm] = str(v)
        e = z3.substitute(conj, *subs)
        fsubs = []
        for nm in sorted(funs):
            d = funs[nm]
            if d.range().kind() != z3.Z3_REAL_SORT:
                continue
            body = z3.RealVal(rng.randint(1, 3), ctx)
            for i in range(d.arity()):
                if d.domain(i).kind() != z3.Z3_REAL_SORT:
                    body = None
                    break
                v = z3.Var(i, d.domain(i))
                body = body + rng.randint(1, 4) * v + rng.randint(0, 2) * v * z3.Var((i + 1) % d.arity(), d.domain((i + 1) % d.arity()))
            if body is None:
                continue
            fsubs.append((d, body))
            mod["fun:" + nm] = str(body)[:200]
        if fsubs:
            e = z3.substitute_funs(e, *fsubs)
        e = z3.simplify(e)
        if z3.is_true(e):
            mod["_ground_seed"] = str(seed)
            return "sat", mod
        if not z3.is_false(e):
            # residual non-ground term: let z3 decide the (now tiny) query
            s = z3.Solver(ctx=ctx)
            s.set("timeout", 2000)
            s.add(e)
            if s.check() == z3.sat:
                return "sat", mod
    return "unknown", "no ground model in %d tries" % tries


def _worker(conn):
    """one job at a time over a private duplex pipe (a shared result queue can be left locked when a worker is killed
    at its hard deadline while writing, which then blocks every other worker)."""
    import signal

    signal.signal(signal.SIGINT, signal.SIG_IGN)
    while True:
        try:
            job = conn.recv()
        except (EOFError, OSError):
            return
        if job is None:
            return
        jid, engine, text, tl, seed = job
        t0 = time.time()
        try:
            if engine == "z3":
                r, info = _run_z3(text, tl)
            elif engine == "z3nl":
                r, info = _run_z3(text, tl, "qfnra-nlsat")
            elif engine == "cvc5":
                r, info = _run_cvc5(text, tl)
            elif engine == "ground":
                r, info = _run_ground(text, tl, seed)
            else:
                r, info = "unknown", "no such engine"
        except Exception as e:
            r, info = "unknown", "error: %s: %s" % (type(e).__name__, str(e)[:200])
        try:
            conn.send((jid, engine, r, info, time.time() - t0))
        except (EOFError, OSError, BrokenPipeError):
            return


class Pool:
    def __init__(self, n=NPROC):
        self.ctx = mp.get_context("spawn")
        self.n = n
        self.workers = []

    def _spawn(self):
        parent, child = self.ctx.Pipe(duplex=True)
        p = self.ctx.Process(target=_worker, args=(child,), daemon=True)
        p.start()
        child.close()
        return {"p": p, "conn": parent, "job": None, "deadline": None}

    def _retire(self, w):
        try:
            w["p"].kill()
        except Exception:
            pass
        try:
            w["conn"].close()
        except Exception:
            pass

    def run(self, jobs, grace=10.0):
        """jobs: list of (jid, engine, text, timeout, seed) -> dict jid,engine -> (verdict, info, secs)"""
        from multiprocessing.connection import wait as _wait

        res = {}
        pending = list(jobs)[::-1]
        n = min(self.n, max(1, len(jobs)))
        while len(self.workers) < n:
            self.workers.append(self._spawn())
        active = 0
        while pending or active:
            for i, w in enumerate(self.workers):
                if w["job"] is None and pending:
                    j = pending.pop()
                    try:
                        w["conn"].send(j)
                    except (OSError, BrokenPipeError, ValueError):
                        # the idle worker is gone: replace it and hand the job to the new one
                        self._retire(w)
                        w = self.workers[i] = self._spawn()
                        w["conn"].send(j)
                    w["job"] = j
                    w["deadline"] = time.time() + j[3] + grace
                    active += 1
            busy = [w for w in self.workers if w["job"] is not None]
            ready = _wait([w["conn"] for w in busy], timeout=0.2) if busy else []
            for conn in ready:
                w = next(x for x in busy if x["conn"] is conn)
                try:
                    jid, engine, r, info, secs = conn.recv()
                except (EOFError, OSError):
                    continue  # handled below as a dead worker
                res[(jid, engine)] = (r, info, secs)
                w["job"] = None
                active -= 1
            now = time.time()
            for i, w in enumerate(self.workers):
                if w["job"] is not None and (now > w["deadline"] or not w["p"].is_alive()):
                    j = w["job"]
                    why = "hard timeout" if w["p"].is_alive() else "worker died"
                    self._retire(w)
                    res[(j[0], j[1])] = ("unknown", why, j[3])
                    self.workers[i] = self._spawn()
                    active -= 1
        return res

    def close(self):
        for w in self.workers:
            try:
                w["conn"].send(None)
            except Exception:
                pass
        for w in self.workers:
            w["p"].join(timeout=1)
            if w["p"].is_alive():
                w["p"].kill()
            try:
                w["conn"].close()
            except Exception:
                pass
        self.workers = []


_POOL = None


def pool():
    global _POOL
    if _POOL is None:
        _POOL = Pool()
    return _POOL


def close_pool():
    global _POOL
    if _POOL is not None:
        _POOL.close()
        _POOL = None


# ----------------------------------------------------------------------------- portfolio
def solve_all(obs, rounds=((("z3", 4), ("cvc5", 4)), (("cvc5", 40), ("z3", 40), ("z3nl", 40)), (("cvc5", 240), ("z3", 240))), seed=0, ground=True, log=None):
    """obs: list of objects with .smt2 text. Sets .verdict in {'unsat','sat','unknown','conflict'},
    .by (engine->verdict), .secs (engine->secs), .model."""
    for o in obs:
        o.by = {}
        o.secs = {}
        o.model = None
        o.verdict = None
        o.info = {}
        o.hint_model = None
    todo = list(range(len(obs)))
    p = pool()
    for rnd_index, rnd in enumerate(rounds):
        if not todo:
            break
        if rnd_index >= 2:
            todo = [i for i in todo if not getattr(obs[i], "hint_model", None)]
            if not todo:
                break
        jobs = []
        for i in todo:
            for eng, tl in rnd:
                if obs[i].by.get(eng) in ("unsat", "sat"):
                    continue
                jobs.append((i, eng, obs[i].smt2, tl, seed))
        t0 = time.time()
        res = p.run(jobs)
        if log:
            log("  solver round %s: %d jobs, %.1fs" % ("/".join("%s:%ds" % e for e in rnd), len(jobs), time.time() - t0))
        for (i, eng), (r, info, secs) in res.items():
            o = obs[i]
            o.by[eng] = r
            o.secs[eng] = o.secs.get(eng, 0) + secs
            if r == "sat" and o.model is None and isinstance(info, dict):
                o.model = info
            if r == "unknown":
                o.info[eng] = str(info)[:200]
        nxt = []
        for i in todo:
            vs = {v for v in obs[i].by.values() if v in ("unsat", "sat")}
            if len(vs) == 2:
                obs[i].verdict = "conflict"
            elif len(vs) == 1:
                obs[i].verdict = vs.pop()
            else:
                nxt.append(i)
        todo = nxt
        if todo and ground and rnd is rounds[0]:
            # cheap early attempt to refute what the first round could not prove: seeded ground instantiation
            # (on the hint query when abstraction atoms are involved); a hit is a candidate that the driver replays
            jobs = [(i, "ground", getattr(obs[i], "smt2_hint", None) or obs[i].smt2, 30, seed + 1) for i in todo]
            res = p.run(jobs)
            nxt = []
            for i in todo:
                r, info, secs = res.get((i, "ground"), ("unknown", None, 0))
                hinted = bool(getattr(obs[i], "smt2_hint", None))
                obs[i].by["ground-hint" if hinted else "ground"] = ("hint-" + r) if hinted else r
                obs[i].secs["ground"] = secs
                if r == "sat" and not hinted:
                    obs[i].model = info
                    obs[i].verdict = "sat"
                else:
                    if r == "sat":
                        # model of the HINT query only (abstraction atoms free): keep solving, but only one more round
                        obs[i].hint_model = info
                    nxt.append(i)
            todo = nxt
    if todo and ground:
        jobs = [(i, "ground", getattr(obs[i], "smt2_hint", None) or obs[i].smt2, 60, seed + 1) for i in todo]
        res = p.run(jobs)
        for (i, eng), (r, info, secs) in res.items():
            o = obs[i]
            hinted = bool(getattr(o, "smt2_hint", None))
            o.by["ground-hint" if hinted else "ground"] = ("hint-" + r) if hinted else r
            o.secs[eng] = secs
            if r == "sat":
                if hinted:
                    o.hint_model = info
                else:
                    o.model = info
                    o.verdict = "sat"
    for o in obs:
        if o.verdict is None and getattr(o, "hint_model", None):
            # undecided by the solvers, refuted on the hint query: a candidate for the driver to replay
            o.model = o.hint_model
            o.verdict = "sat"
            o.by["hint"] = "sat"
    for o in obs:
        if o.verdict is None:
            o.verdict = "unknown"
    return obs
