#!/bin/sh
# ./vf/seedcheck.sh <seed-dir-name> [tier]  - apply seeded/<name>/patch.diff to /repo, run the property's check, undo the patch.
# Expected: exit 1 with a VIOLATION line. Never leaves /repo modified.
S="$1"; T="${2:-quick}"
HERE="$(cd "$(dirname "$0")/.." && pwd)"
P=$(echo "$S" | cut -c1-3)
[ -z "$(git -C /repo status --porcelain --untracked-files=no)" ] || { echo "/repo not clean"; exit 3; }
git -C /repo apply "$HERE/seeded/$S/patch.diff" || exit 3
cp "$HERE/evidence/$P.json" /tmp/.ev.$P.$$ 2>/dev/null
"$HERE/vf/check" "$P" --tier "$T" > /tmp/seedcheck-$S.log 2>&1
RC=$?
git -C /repo checkout -- .
[ -f /tmp/.ev.$P.$$ ] && mv /tmp/.ev.$P.$$ "$HERE/evidence/$P.json"
echo "$S exit=$RC $(grep -c '^VIOLATION' /tmp/seedcheck-$S.log) violation lines"
grep -m3 "^VIOLATION\|INCONCLUSIVE" /tmp/seedcheck-$S.log
exit 0
