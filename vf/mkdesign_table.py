"""python -m vf.mkdesign_table : prints the per-property 'as built' table for DESIGN.md section 11.6 from the evidence files."""
import glob
import json
import os

ROOT = os.path.dirname(os.path.dirname(os.path.abspath(__file__)))


def main():
    print("| id | tier of the committed evidence | obligations (discharged) | known findings hit | bounds (from the evidence file) |")
    print("|----|------|------|------|------|")
    for f in sorted(glob.glob(os.path.join(ROOT, "evidence", "C*.json"))):
        e = json.load(open(f))
        c = e["coverage"]
        b = "; ".join("%s: %s" % (k, v) for k, v in c.get("bounds", {}).items())
        print("| %s | %s | %s (%s) | %d | %s |" % (e["property_id"], e["tier"], c.get("obligations"), c.get("discharged"), len(c.get("known_findings_hit", [])), b.replace("|", "/")))


if __name__ == "__main__":
    main()
