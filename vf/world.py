"""Worlds for API-level symbolic assembly: base meshes, symbolic grids, uninterpreted kernels, lifted rules."""
import itertools
from fractions import Fraction as F
import numpy as np
import z3
from .sym import SR, SC, ABS, term, rv
from .npshim import SA, lift_arr, sym_array

# ----------------------------------------------------------------------------- base meshes (vertices 3xN, elements 3xM)
TET_V = [[0, 1, 0, 0], [0, 0, 1, 0], [0, 0, 0, 1.0]]
TET_E = [[0, 0, 0, 1], [2, 1, 3, 2], [1, 3, 2, 3]]


def mesh(name):
    """(vertices, elements, domain_indices) of a named base topology (generic, non-degenerate geometry)."""
    if name == "T1":
        return np.array([[0, 1, 0.1], [0, 0.2, 1], [0, 0.1, 0.3]]), np.array([[0], [1], [2]]), [0]
    if name == "T2":  # two triangles sharing an edge (1,2)
        return np.array([[0, 1, 0.1, 1.2], [0, 0.2, 1, 1.1], [0, 0.1, 0.3, 0.4]]), np.array([[0, 1], [1, 3], [2, 2]]), [0, 1]
    if name == "T3":  # two triangles sharing a vertex (2)
        return np.array([[0, 1, 0.1, 1.2, -0.5], [0, 0.2, 1, 1.9, 2.0], [0, 0.1, 0.3, 0.4, 0.2]]), np.array([[0, 2], [1, 3], [2, 4]]), [0, 1]
    if name == "T4":  # tetrahedron (closed)
        return np.array([[0, 1, 0.1, 0.2], [0, 0.1, 1, 0.3], [0, 0.2, 0.1, 1.0]]), np.array(TET_E), [0, 0, 1, 1]
    if name == "T5":  # open fan of 4 around vertex 0
        v = np.array([[0, 1, 0.1, -1.1, 0.2], [0, 0.1, 1, 0.2, -1.0], [0.3, 0, 0.1, 0.2, 0.1]])
        e = np.array([[0, 0, 0, 0], [1, 2, 3, 4], [2, 3, 4, 1]])
        return v, e, [0, 0, 1, 1]
    if name == "T6":  # octahedron (closed, valence 4)
        v = np.array([[1, -1, 0, 0, 0.1, 0], [0, 0.1, 1, -1, 0, 0], [0, 0, 0.1, 0, 1, -1.0]])
        e = np.array([[0, 2, 1, 3, 2, 1, 3, 0], [2, 1, 3, 0, 0, 2, 1, 3], [4, 4, 4, 4, 5, 5, 5, 5]])
        return v, e, [0, 0, 0, 0, 1, 1, 1, 1]
    if name == "T7":  # tetrahedron + a separate pair (two components)
        v = np.hstack([np.array([[0, 1, 0.1, 0.2], [0, 0.1, 1, 0.3], [0, 0.2, 0.1, 1.0]]), np.array([[3, 4, 3.1, 4.2], [0, 0.1, 1, 1.1], [0, 0.2, 0.1, 0.5]])])
        e = np.hstack([np.array(TET_E), np.array([[4, 5], [5, 7], [6, 6]])])
        return v, e, [0, 0, 1, 1, 2, 2]
    if name == "T8":  # three triangles on one edge (non-manifold)
        v = np.array([[0, 1, 0.1, 0.2, 0.3], [0, 0.1, 1, -1, 0.2], [0, 0.2, 0.1, 0.1, 1.0]])
        e = np.array([[0, 1, 0], [1, 0, 1], [2, 3, 4]])
        return v, e, [0, 1, 2]
    if name == "T9":  # strip of 4 with 3 domain indices
        v = np.array([[0, 1, 0, 1, 0.1, 1.1], [0, 0.1, 1, 1.1, 2, 2.1], [0, 0.1, 0.2, 0.1, 0, 0.3]])
        e = np.array([[0, 1, 2, 3], [1, 3, 3, 5], [2, 2, 4, 4]])
        return v, e, [0, 1, 1, 2]
    if name == "F5":  # flat fan of 4 unit right triangles (all geometric quantities rational)
        v = np.array([[0, 1, 0, -1, 0], [0, 0, 1, 0, -1], [0, 0, 0, 0, 0.0]])
        e = np.array([[0, 0, 0, 0], [1, 2, 3, 4], [2, 3, 4, 1]])
        return v, e, [0, 0, 1, 1]
    if name == "F2":  # flat unit square split in two
        return np.array([[0, 1, 0, 1], [0, 0, 1, 1], [0, 0, 0, 0.0]]), np.array([[0, 1], [1, 3], [2, 2]]), [0, 1]
    raise KeyError(name)


_installed_rules = False


def lift_rules():
    """wrap the rule constructors so that their (concrete) tables enter the run as exact rationals."""
    global _installed_rules
    if _installed_rules:
        return
    _installed_rules = True
    import bempp_cl.api.integration.triangle_gauss as tg
    import bempp_cl.api.integration.duffy_galerkin as dg

    # tables are already lifted at import (they are built through the shim); nothing else to do
    return tg, dg


def symgrid(name_or_tuple, tag="", geometry="free", dom=None):
    """Grid with the named topology whose geometry arrays are replaced by symbols.

    geometry='free'    : normals, jacobians, jac_inv_trans, integration elements, vertices are unconstrained reals
                         (strictly more general than any real mesh);
    geometry='vertices': vertices symbolic, all derived quantities recomputed by the real
                         Grid._compute_geometric_quantities from them."""
    import bempp_cl.api as b

    v, e, d = mesh(name_or_tuple) if isinstance(name_or_tuple, str) else name_or_tuple
    if dom is not None:
        d = dom
    v = np.asarray(v, dtype=float)
    e = np.asarray(e)
    g = b.Grid(v, e, None if d is None else np.asarray(d, dtype="uint32"))
    return symbolize(g, tag, geometry)


def symbolize(g, tag="", geometry="free"):
    """replace the geometry arrays of an existing Grid object by symbols (see symgrid)."""
    NE = g.number_of_elements
    NV = g.number_of_vertices
    if geometry == "free":
        g._vertices = sym_array(tag + "v", (3, NV))
        g._normals = sym_array(tag + "n", (NE, 3))
        g._integration_elements = sym_array(tag + "ie", (NE,))
        g._jacobians = sym_array(tag + "J", (NE, 3, 2))
        g._jacobian_inverse_transposed = sym_array(tag + "Jit", (NE, 3, 2))
        g._volumes = (g._integration_elements * F(1, 2)).view(SA)
        g._diameters = sym_array(tag + "diam", (NE,))
        g._centroids = sym_array(tag + "cen", (NE, 3))
    elif geometry == "vertices":
        g._vertices = sym_array(tag + "v", (3, NV))
        g._compute_geometric_quantities()
    else:
        raise ValueError(geometry)
    for attr in ("_grid_data_double", "_grid_data_single"):
        gd = getattr(g, attr, None)
        if gd is None:
            continue
        gd.vertices = g._vertices
        gd.normals = g._normals
        gd.integration_elements = g._integration_elements
        gd.jacobians = g._jacobians
        gd.jac_inv_trans = g._jacobian_inverse_transposed
        gd.volumes = g._volumes
        if hasattr(gd, "diameters"):
            gd.diameters = g._diameters
        if hasattr(gd, "centroids"):
            gd.centroids = g._centroids
    return g


class UFKernel:
    """uninterpreted Green's function K(x, y[, n_x][, n_y]) (real or complex valued)."""

    def __init__(self, name, normals="y", complex_=False, symmetric=False):
        self.name = name
        self.normals = normals  # '' | 'x' | 'y' | 'xy'
        self.complex = complex_
        n = 6 + 3 * len(normals)
        self.f = z3.Function(name, *([z3.RealSort()] * n), z3.RealSort())
        self.fi = z3.Function(name + "_im", *([z3.RealSort()] * n), z3.RealSort()) if complex_ else None
        self.apps = {}
        self.symmetric = symmetric

    def val(self, x, y, nx, ny):
        if self.symmetric:
            return self._val(x, y, nx, ny) + self._val(y, x, ny, nx)
        return self._val(x, y, nx, ny)

    def _val(self, x, y, nx, ny):
        a = [term(c) for c in x] + [term(c) for c in y]
        if "x" in self.normals:
            a += [term(c) for c in nx]
        if "y" in self.normals:
            a += [term(c) for c in ny]
        a = [z3.simplify(t, som=True, mul_to_power=False) for t in a]
        if self.complex:
            return SC(SR(self.f(*a)), SR(self.fi(*a)))
        return SR(self.f(*a))

    def regular(self):
        def k(tp, yp, tn, yn, params):
            n = yp.shape[1]
            out = np.empty(n, dtype=object)
            for j in range(n):
                out[j] = self.val(list(tp), list(yp[:, j]), list(tn) if 'x' in self.normals else None, list(yn[:, j]) if 'y' in self.normals else None)
            return out.view(SA)

        return k

    def singular(self):
        def k(tp, yp, tn, yn, params):
            n = yp.shape[1]
            out = np.empty(n, dtype=object)
            for j in range(n):
                out[j] = self.val(list(tp[:, j]), list(yp[:, j]), list(tn) if 'x' in self.normals else None, list(yn) if 'y' in self.normals else None)
            return out.view(SA)

        return k


class patched:
    """context manager: temporarily set attributes on modules/objects."""

    def __init__(self, *triples):
        self.triples = triples
        self.old = []

    def __enter__(self):
        for obj, name, val in self.triples:
            self.old.append((obj, name, getattr(obj, name)))
            setattr(obj, name, val)
        return self

    def __exit__(self, *a):
        for obj, name, val in reversed(self.old):
            setattr(obj, name, val)


def install_uf(kernel_names, uf):
    """triples for `patched` replacing numba_kernels.<name>_regular/_singular by the UF."""
    import bempp_cl.core.numba_kernels as nk

    tr = []
    for nm in kernel_names:
        tr.append((nk, nm + "_regular", uf.regular()))
        if hasattr(nk, nm + "_singular"):
            tr.append((nk, nm + "_singular", uf.singular()))
    return tr


def entries_eq(A, B):
    """list of (index, z3 formula A[idx]==B[idx]) for two arrays of proxies."""
    from .sym import eq_formula

    A = np.asarray(A, dtype=object)
    B = np.asarray(B, dtype=object)
    assert A.shape == B.shape, (A.shape, B.shape)
    return [(idx, eq_formula(A[idx], B[idx])) for idx in np.ndindex(*A.shape)]


def set_orders(regular=None, singular=None):
    import bempp_cl.api as b

    if regular is not None:
        b.GLOBAL_PARAMETERS.quadrature.regular = regular
    if singular is not None:
        b.GLOBAL_PARAMETERS.quadrature.singular = singular


def explore_space_options(b, grid, kind, deg, flags=True, max_paths=6000, fixed=None):
    """Run the real space constructor with a SYMBOLIC support mask (one boolean per element) and symbolic
    include_boundary_dofs / truncate_at_segment_edge flags; returns (mask vars, flag vars, [(pc, space, exc)], explorer).
    Every path of the constructor's decisions over these booleans is explored (the non-empty-support cases)."""
    import bempp_cl.api.space.space as sp
    from .sym import SB, Explorer

    NE = grid.number_of_elements
    mvars = [z3.Bool("m%d" % i) for i in range(NE)]
    fv = [z3.Bool("include_boundary_dofs"), z3.Bool("truncate_at_segment_edge")]
    orig_set = sp.SpaceBuilder.set_support

    def set_support(self, support):
        return orig_set(self, np.array([bool(x) for x in support], dtype=bool))

    def build():
        supp = np.empty(NE, dtype=object)
        for i in range(NE):
            supp[i] = SB(mvars[i])

        def fake_process(grid_, support_elements, segments, swapped_normals):
            if kind == "DP":  # the discontinuous spaces use the mask as a NumPy index: decide it up front (2^N paths)
                return np.array([bool(x) for x in supp], dtype=bool), np.ones(NE, dtype=np.int32)
            return supp.copy(), np.ones(NE, dtype=np.int32)

        with patched((sp, "_process_segments", fake_process), (sp.SpaceBuilder, "set_support", set_support)):
            kw = {}
            if flags:
                kw = {"include_boundary_dofs": SB(fv[0]), "truncate_at_segment_edge": SB(fv[1])}
            if fixed:
                kw.update(fixed)
            return b.function_space(grid, kind, deg, scatter=False, **kw)

    ex = Explorer(assume=[z3.Or(*mvars)], max_paths=max_paths)
    res = ex.run(build)
    return mvars, fv, res, ex
