"""vf: solver-based checking machinery for bempp-cl (see /verif/DESIGN.md)."""
