"""NumPy stand-in handed to the repository's modules (`import numpy as np` -> this shim).

Float/complex arrays become object arrays (class SA) holding SR/SC proxies, constants are lifted to
exact rationals on entry so that no floating-point rounding happens inside the symbolic process.
Integer/bool arrays stay ordinary NumPy arrays unless INT_SYMBOLIC is switched on by a harness.
Everything not overridden falls through to NumPy.
"""
import types
from fractions import Fraction
import numpy as np
import z3
from .sym import SR, SC, SI, SB, ZERO, ONE, Inconclusive, to_fraction, sb_term, _decide

_real_np = np
FLAGS = {"int_symbolic": False}
CASTS = []  # (array, target integer dtype) for every cast of symbolic integers


class SA(np.ndarray):
    """object ndarray whose Python-level dtype follows its content (SC -> complex128, else float64)."""

    decl = None

    def __array_finalize__(self, obj):
        if obj is not None:
            self.decl = getattr(obj, "decl", None)

    @property
    def dtype(self):
        if self.decl in ("int", "uint32", "int32", "int64", "bool"):
            return _real_np.dtype({"int": "int64"}.get(self.decl, self.decl))
        for x in np.ndarray.ravel(np.asarray(self)):
            if isinstance(x, (SC, complex)):
                return _real_np.dtype("complex128")
        if self.decl == "complex128" and self.size == 0:
            return _real_np.dtype("complex128")
        if self.decl == "float32":
            # a real single-precision array (declared by a harness): values are reals, only the reported dtype differs
            return _real_np.dtype("float32")
        return _real_np.dtype("float64")

    def astype(self, dtype, *a, **k):
        kind = _kind(dtype)
        if kind == "c":
            return _map(self, SC.lift)
        if kind == "f":
            if any(isinstance(x, SC) for x in np.asarray(self).ravel()):
                # numpy discards the imaginary part (ComplexWarning)
                return _map(self, lambda x: x.re if isinstance(x, SC) else x)
            return self.copy()
        if kind in "iub":
            out = np.asarray(self)
            if any(isinstance(x, SI) for x in out.ravel()):
                r = self.copy()
                r.decl = str(_real_np.dtype(dtype))
                CASTS.append((r, str(_real_np.dtype(dtype))))  # harness turns these into range side conditions
                return r
            try:
                return _real_np.array([int(x) for x in out.ravel()], dtype=dtype).reshape(out.shape)
            except Inconclusive:
                return self.copy()
        return self.copy()

    @property
    def real(self):
        return _map(self, lambda x: x.re if isinstance(x, SC) else x)

    @property
    def imag(self):
        return _map(self, lambda x: x.im if isinstance(x, SC) else ZERO)

    def conjugate(self):
        return _map(self, lambda x: x.conjugate() if isinstance(x, SC) else x)

    conj = conjugate

    def _inplace(self, o, op):
        if isinstance(o, (SR, SC, SI)):
            r = getattr(o, op)(np.asarray(self))
            np.ndarray.__setitem__(self, Ellipsis, r)
            return self
        return NotImplemented

    def __imul__(self, o):
        r = self._inplace(o, "__rmul__")
        return np.ndarray.__imul__(self, o) if r is NotImplemented else r

    def __iadd__(self, o):
        r = self._inplace(o, "__radd__")
        return np.ndarray.__iadd__(self, o) if r is NotImplemented else r

    def __isub__(self, o):
        r = self._inplace(o, "__rsub__")
        return np.ndarray.__isub__(self, o) if r is NotImplemented else r

    def __itruediv__(self, o):
        r = self._inplace(o, "__rtruediv__")
        return np.ndarray.__itruediv__(self, o) if r is NotImplemented else r

    def __reduce__(self):
        raise TypeError("SA arrays are not picklable")


_raw_dtype = np.ndarray.dtype.__get__


def isobj(a):
    """True for object ndarrays (SA reports a declared dtype at Python level; this looks at the real one)."""
    return isinstance(a, np.ndarray) and _raw_dtype(a) == object


def _kind(dtype):
    if dtype is None:
        return "f"
    if dtype is bool:
        return "b"
    if dtype is int:
        return "i"
    if dtype is float:
        return "f"
    if dtype is complex:
        return "c"
    if dtype is object:
        return "O"
    if isinstance(dtype, str) and dtype in ("float", "complex"):
        return dtype[0]
    try:
        return _real_np.dtype(dtype).kind
    except TypeError:
        return "O"


def _truthy(x):
    """truth value of an array element (symbolic booleans decide through the Explorer; they have no != 0)."""
    from .sym import SB

    if isinstance(x, (SB, bool, _real_np.bool_)):
        return bool(x)
    return bool(x != 0)


PROXY_TYPES = []  # further scalar proxy classes (e.g. jets) that arrays may hold unchanged


def _lift_scalar(x, kind="f"):
    if PROXY_TYPES and isinstance(x, tuple(PROXY_TYPES)):
        return x
    if isinstance(x, (SR, SC, SI)):
        if kind == "c":
            return SC.lift(x)
        return x
    if isinstance(x, (complex, np.complexfloating)):
        return SC.lift(x)
    if isinstance(x, SB):
        return x
    if x is None:
        return x
    if kind == "c":
        return SC.lift(x)
    return SR(c=to_fraction(x))


def _map(a, f):
    a = np.asarray(a, dtype=object)
    out = np.empty(a.shape, dtype=object)
    flat_in = a.ravel()
    flat_out = out.ravel()  # view when contiguous
    for i in range(flat_in.size):
        flat_out[i] = f(flat_in[i])
    return out.view(SA)


def lift_arr(a, kind=None):
    """any array-like -> SA with exact-rational constants."""
    if isinstance(a, SA) and kind is None:
        return a
    arr = np.asarray(a) if not isinstance(a, np.ndarray) else a
    if (not isobj(arr)):
        k = kind or ("c" if arr.dtype.kind == "c" else "f")
    else:
        k = kind or "f"
        # nested lists of proxies may come out as object arrays of lists: rebuild
    return _map(arr, lambda x: _lift_scalar(x, k))


def is_sym(x):
    return isinstance(x, (SR, SC, SI)) or (isinstance(x, np.ndarray) and isobj(x))


def sym_array(name, shape, complex_=False):
    out = np.empty(shape, dtype=object)
    for idx in np.ndindex(*shape):
        nm = name + "_" + "_".join(map(str, idx))
        out[idx] = SC(SR.var(nm + "r"), SR.var(nm + "i")) if complex_ else SR.var(nm)
    return out.view(SA)


def _contains_sym(obj):
    if isinstance(obj, (SR, SC, SI)):
        return True
    if isinstance(obj, np.ndarray):
        return isobj(obj)
    if isinstance(obj, (list, tuple)):
        return any(_contains_sym(o) for o in obj)
    return False


def _elementwise(name):
    def f(x, *a, **k):
        if isinstance(x, (SR, SC)) or (PROXY_TYPES and isinstance(x, tuple(PROXY_TYPES))):
            return getattr(x, name)()
        if isinstance(x, (SI,)):
            return getattr(SR.lift(x), name)()
        if isinstance(x, np.ndarray) and isobj(x):
            return _map(x, lambda e: getattr(_lift_scalar(e), name)())
        if isinstance(x, (list, tuple)) and _contains_sym(x):
            return _map(np.array(x, dtype=object), lambda e: getattr(_lift_scalar(e), name)())
        return SHIM._wrap(getattr(_real_np, name)(x, *a, **k))

    f.__name__ = name
    return f


class LinalgShim:
    def __getattr__(self, n):
        return getattr(_real_np.linalg, n)

    def norm(self, x, ord=None, axis=None, **k):
        x = lift_arr(x)
        if ord is not None and ord == _real_np.inf and axis is None:
            ab = _map(x, lambda e: abs(_lift_scalar(e)))
            if ab.ndim == 2:  # matrix infinity norm: maximal absolute row sum
                rows = [sum(list(ab[i, 1:]), ab[i, 0]) for i in range(ab.shape[0])]
            else:
                rows = list(ab.ravel())
            m = rows[0]
            for r in rows[1:]:
                m = _smax(m, r)
            return m
        if ord not in (None, 2, "fro"):
            raise Inconclusive("linalg.norm with ord=%r" % (ord,))
        sq = (x * x.conjugate()).real.sum(axis=axis) if any(isinstance(e, SC) for e in x.ravel()) else (x * x).sum(axis=axis)
        if isinstance(sq, np.ndarray) and sq.ndim == 0:
            sq = sq.item()
        if isinstance(sq, np.ndarray):
            return _map(sq, lambda e: SR.lift(e).sqrt_of_sum_of_squares())
        return SR.lift(sq).sqrt_of_sum_of_squares()

    def det(self, m):
        m = lift_arr(m)
        n = m.shape[-1]
        if n == 2:
            r = m[..., 0, 0] * m[..., 1, 1] - m[..., 0, 1] * m[..., 1, 0]
        elif n == 3:
            r = (
                m[..., 0, 0] * (m[..., 1, 1] * m[..., 2, 2] - m[..., 1, 2] * m[..., 2, 1])
                - m[..., 0, 1] * (m[..., 1, 0] * m[..., 2, 2] - m[..., 1, 2] * m[..., 2, 0])
                + m[..., 0, 2] * (m[..., 1, 0] * m[..., 2, 1] - m[..., 1, 1] * m[..., 2, 0])
            )
        elif n == 1:
            r = m[..., 0, 0]
        else:
            raise Inconclusive("det of %dx%d" % (n, n))
        return r.view(SA) if isinstance(r, np.ndarray) else r

    def inv(self, m):
        m = lift_arr(m)
        n = m.shape[-1]
        out = np.empty(m.shape, dtype=object)
        if n == 2:
            d = m[..., 0, 0] * m[..., 1, 1] - m[..., 0, 1] * m[..., 1, 0]
            out[..., 0, 0] = m[..., 1, 1] / d
            out[..., 1, 1] = m[..., 0, 0] / d
            out[..., 0, 1] = -m[..., 0, 1] / d
            out[..., 1, 0] = -m[..., 1, 0] / d
        elif n == 1:
            out[..., 0, 0] = 1 / m[..., 0, 0]
        else:
            raise Inconclusive("inv of %dx%d" % (n, n))
        return out.view(SA)


class _ScalarType:
    """np.float64 / np.complex128 ... stand-in: usable as a dtype (np.dtype() reads .dtype) and as a
    constructor (lifts to an exact proxy)."""

    def __init__(self, real_type):
        self.real_type = real_type
        self.dtype = _real_np.dtype(real_type)
        self.__name__ = real_type.__name__

    def __call__(self, x=0):
        k = self.dtype.kind
        if isinstance(x, np.ndarray):
            return SHIM.asarray(x, dtype=self.dtype)
        if k == "c":
            if isinstance(x, (SR, SC)):
                return SC.lift(x)
            return SC.lift(complex(x))
        if isinstance(x, SC):
            return x.re
        if isinstance(x, (SR, SI)):
            return SR.lift(x)
        return SR(c=to_fraction(x))

    def __eq__(self, o):
        if o is self or o is self.real_type:
            return True
        try:
            return _real_np.dtype(o) == self.dtype
        except TypeError:
            return False

    def __ne__(self, o):
        return not self.__eq__(o)

    def __hash__(self):
        return hash(self.real_type)

    def __repr__(self):
        return "shim." + self.__name__


class NPShim(types.ModuleType):
    def __init__(self):
        super().__init__("vf_npshim")
        self.linalg = LinalgShim()
        for t in ("float64", "float32", "complex128", "complex64"):
            setattr(self, t, _ScalarType(getattr(_real_np, t)))
        self.float_ = self.float64
        for nm in ("sqrt", "exp", "cos", "sin"):
            setattr(self, nm, _elementwise(nm))

    def __getattr__(self, n):
        return getattr(_real_np, n)

    # ---- helpers
    def _wrap(self, r):
        """lift a concrete float/complex ndarray result into SA."""
        if isinstance(r, np.ndarray) and r.dtype.kind in "fc":
            return lift_arr(r)
        if isinstance(r, (np.floating, float)) and not isinstance(r, bool):
            return SR(c=to_fraction(r))
        if isinstance(r, (np.complexfloating, complex)):
            return SC.lift(r)
        return r

    def _symk(self, dtype):
        k = _kind(dtype)
        if k in "fc":
            return k
        if k in "iu" and FLAGS["int_symbolic"]:
            return "i"
        return None

    # ---- creation
    def zeros(self, shape, dtype=None, order="C", **kw):
        k = self._symk(dtype)
        if k is None:
            return _real_np.zeros(shape, dtype=dtype)
        out = np.empty(shape, dtype=object)
        if k == "i":
            out.fill(0)
            out = out.view(SA)
            out.decl = str(_real_np.dtype(dtype))
            return out
        z = SC(ZERO, ZERO) if k == "c" else ZERO
        out.fill(z)
        out = out.view(SA)
        out.decl = "complex128" if k == "c" else "float64"
        return out

    def empty(self, shape, dtype=None, order="C", **kw):
        if _kind(dtype) == "O":
            return _real_np.empty(shape, dtype=object)  # None-filled, as in NumPy
        return self.zeros(shape, dtype=dtype)

    def ones(self, shape, dtype=None, order="C", **kw):
        k = self._symk(dtype)
        if k is None:
            return _real_np.ones(shape, dtype=dtype)
        out = np.empty(shape, dtype=object)
        out.fill(1 if k == "i" else (SC(ONE, ZERO) if k == "c" else ONE))
        out = out.view(SA)
        out.decl = "complex128" if k == "c" else ("float64" if k == "f" else str(_real_np.dtype(dtype)))
        return out

    def full(self, shape, fill_value, dtype=None, **kw):
        if dtype is None and not _contains_sym(fill_value) and not isinstance(fill_value, (float, complex, np.floating)):
            return _real_np.full(shape, fill_value, dtype=dtype)
        k = self._symk(dtype) if dtype is not None else "f"
        if k is None:
            return _real_np.full(shape, fill_value, dtype=dtype)
        out = np.empty(shape, dtype=object)
        out.fill(_lift_scalar(fill_value, k) if k != "i" else fill_value)
        return out.view(SA)

    def zeros_like(self, a, dtype=None, **kw):
        if dtype is None and isinstance(a, np.ndarray) and isobj(a):
            cplx = any(isinstance(x, SC) for x in a.ravel())
            return self.zeros(a.shape, dtype="complex128" if cplx else "float64")
        return self.zeros(_real_np.shape(a), dtype=dtype if dtype is not None else _real_np.asarray(a).dtype)

    def empty_like(self, a, dtype=None, **kw):
        return self.zeros_like(a, dtype=dtype)

    def ones_like(self, a, dtype=None, **kw):
        if dtype is None and isinstance(a, np.ndarray) and isobj(a):
            return self.ones(a.shape, dtype="float64")
        return self.ones(_real_np.shape(a), dtype=dtype if dtype is not None else _real_np.asarray(a).dtype)

    def eye(self, n, m=None, dtype=float, **kw):
        k = self._symk(dtype)
        r = _real_np.eye(n, m, **kw)
        if k in ("f", "c"):
            return lift_arr(r, k)
        return r.astype(dtype)

    def identity(self, n, dtype=float):
        return self.eye(n, dtype=dtype)

    def array(self, obj, dtype=None, **kw):
        sym = _contains_sym(obj)
        if dtype is None:
            if sym:
                return lift_arr(np.array(obj, dtype=object))
            r = _real_np.array(obj, **kw)
            return self._wrap(r)
        k = self._symk(dtype)
        if k in ("f", "c"):
            if isinstance(obj, np.ndarray) and (not isobj(obj)):
                return lift_arr(obj, k)
            return lift_arr(np.array(obj, dtype=object), k)
        if sym:
            a = np.array(obj, dtype=object)
            if _kind(dtype) in "iu" and all(isinstance(x, (int, np.integer)) for x in a.ravel()):
                return _real_np.array(a.tolist(), dtype=dtype)
            out = a.view(SA)
            out.decl = str(_real_np.dtype(dtype)) if _kind(dtype) in "iub" else None
            return out
        return _real_np.array(obj, dtype=dtype, **kw)

    def asarray(self, obj, dtype=None, **kw):
        if isinstance(obj, SA) and (dtype is None or self._symk(dtype) in ("f",)):
            return obj
        if isinstance(obj, np.ndarray) and (not isobj(obj)) and dtype is None and obj.dtype.kind not in "fc":
            return obj
        return self.array(obj, dtype=dtype)

    def ascontiguousarray(self, obj, dtype=None, **kw):
        return self.asarray(obj, dtype=dtype)

    def asfortranarray(self, obj, dtype=None, **kw):
        return self.asarray(obj, dtype=dtype)

    def require(self, obj, dtype=None, requirements=None, **kw):
        return self.asarray(obj, dtype=dtype)

    def copy(self, a, **kw):
        if isinstance(a, SA):
            return a.copy()
        return self._wrap(_real_np.copy(a))

    def linspace(self, *a, **k):
        return self._wrap(_real_np.linspace(*a, **k))

    def arange(self, *a, **k):
        return self._wrap(_real_np.arange(*a, **k))

    # ---- predicates / type queries
    def iscomplexobj(self, x):
        if isinstance(x, SC):
            return True
        if isinstance(x, SR):
            return False
        if isinstance(x, np.ndarray) and isobj(x):
            return any(isinstance(e, (SC, complex)) for e in x.ravel())
        return _real_np.iscomplexobj(x)

    def isrealobj(self, x):
        return not self.iscomplexobj(x)

    def iscomplex(self, x):
        if isinstance(x, SC):
            return not (x.im.c is not None and x.im.c == 0)
        if isinstance(x, SR):
            return False
        return _real_np.iscomplex(x)

    def isscalar(self, x):
        if isinstance(x, (SR, SC, SI)):
            return True
        return _real_np.isscalar(x)

    def isfinite(self, x):
        if is_sym(x):
            return _real_np.ones(_real_np.shape(x), dtype=bool) if isinstance(x, np.ndarray) else True
        return _real_np.isfinite(x)

    def isnan(self, x):
        if is_sym(x):
            return _real_np.zeros(_real_np.shape(x), dtype=bool) if isinstance(x, np.ndarray) else False
        return _real_np.isnan(x)

    def real(self, x):
        if isinstance(x, (SR, SC)):
            return x.real
        if isinstance(x, np.ndarray) and isobj(x):
            return x.view(SA).real
        return self._wrap(_real_np.real(x))

    def imag(self, x):
        if isinstance(x, (SR, SC)):
            return x.imag
        if isinstance(x, np.ndarray) and isobj(x):
            return x.view(SA).imag
        return self._wrap(_real_np.imag(x))

    def conj(self, x):
        if isinstance(x, (SR, SC)):
            return x.conjugate()
        if isinstance(x, np.ndarray) and isobj(x):
            return x.view(SA).conjugate()
        return self._wrap(_real_np.conj(x))

    conjugate = conj

    def abs(self, x):
        if isinstance(x, (SR, SC)):
            return abs(x)
        if isinstance(x, np.ndarray) and isobj(x):
            return _map(x, lambda e: abs(_lift_scalar(e)))
        return self._wrap(_real_np.abs(x))

    absolute = abs

    def dot(self, a, b, out=None):
        if is_sym(a) or is_sym(b):
            r = _real_np.dot(_o(a), _o(b))
            return r.view(SA) if isinstance(r, np.ndarray) else r
        return self._wrap(_real_np.dot(a, b))

    def vdot(self, a, b):
        if is_sym(a) or is_sym(b):
            a = lift_arr(a).conjugate().ravel()
            return _real_np.dot(a, _o(b).ravel())
        return self._wrap(_real_np.vdot(a, b))

    def cross(self, a, b, axis=-1, **kw):
        if is_sym(a) or is_sym(b):
            a = _o(a)
            b = _o(b)
            if axis != -1:
                a = _real_np.moveaxis(a, axis, -1)
                b = _real_np.moveaxis(b, axis, -1)
            out = np.empty(_real_np.broadcast(a, b).shape, dtype=object)
            out[..., 0] = a[..., 1] * b[..., 2] - a[..., 2] * b[..., 1]
            out[..., 1] = a[..., 2] * b[..., 0] - a[..., 0] * b[..., 2]
            out[..., 2] = a[..., 0] * b[..., 1] - a[..., 1] * b[..., 0]
            if axis != -1:
                out = _real_np.moveaxis(out, -1, axis)
            return out.view(SA)
        return self._wrap(_real_np.cross(a, b, axis=axis, **kw))

    def outer(self, a, b):
        if is_sym(a) or is_sym(b):
            return _real_np.multiply.outer(_o(a).ravel(), _o(b).ravel()).view(SA)
        return self._wrap(_real_np.outer(a, b))

    def sum(self, a, axis=None, **kw):
        if is_sym(a):
            r = _real_np.sum(_o(a), axis=axis, keepdims=bool(kw.get("keepdims", False)))
            return r.view(SA) if isinstance(r, np.ndarray) else r
        r = _real_np.sum(a, axis=axis, **kw)
        return self._wrap(r)

    def mean(self, a, axis=None, **kw):
        if is_sym(a):
            a = _o(a)
            n = a.size if axis is None else a.shape[axis]
            r = _real_np.sum(a, axis=axis) * Fraction(1, n)
            return r.view(SA) if isinstance(r, np.ndarray) else r
        return self._wrap(_real_np.mean(a, axis=axis, **kw))

    def max(self, a, axis=None, **kw):
        if is_sym(a):
            a = _o(a)
            if axis is None:
                flat = list(a.ravel())
                m = flat[0]
                for x in flat[1:]:
                    m = _smax(m, x)
                return m
            a2 = _real_np.moveaxis(a, axis, 0)
            m = a2[0]
            for i in range(1, a2.shape[0]):
                m = _vmax(m, a2[i])
            return m
        return self._wrap(_real_np.max(a, axis=axis, **kw))

    amax = max

    def isclose(self, a, b, **kw):
        if is_sym(a) or is_sym(b):
            raise Inconclusive("isclose on symbolic values")
        return _real_np.isclose(a, b, **kw)

    def allclose(self, a, b, **kw):
        if is_sym(a) or is_sym(b):
            raise Inconclusive("allclose on symbolic values")
        return _real_np.allclose(a, b, **kw)

    def vstack(self, t, **k):
        return _restack(_real_np.vstack, t)

    def hstack(self, t, **k):
        return _restack(_real_np.hstack, t)

    def concatenate(self, t, axis=0, **k):
        return _restack(lambda x: _real_np.concatenate(x, axis=axis), t)

    def column_stack(self, t):
        return _restack(_real_np.column_stack, t)

    def stack(self, t, axis=0, **k):
        return _restack(lambda x: _real_np.stack(x, axis=axis), t)

    def tile(self, a, reps):
        r = _real_np.tile(a, reps)
        return r.view(SA) if isobj(r) else self._wrap(r)

    def repeat(self, a, reps, axis=None):
        r = _real_np.repeat(a, reps, axis=axis)
        return r.view(SA) if isobj(r) else self._wrap(r)

    def where(self, cond, *a):
        if not a:
            return _real_np.where(cond)
        r = _real_np.where(cond, *a)
        return r.view(SA) if isobj(r) else self._wrap(r)

    def einsum(self, *a, **k):
        if any(is_sym(x) for x in a[1:]):
            raise Inconclusive("einsum on symbolic values")
        return self._wrap(_real_np.einsum(*a, **k))

    def result_type(self, *a):
        kinds = []
        for x in a:
            if isinstance(x, (SC,)):
                kinds.append(_real_np.dtype("complex128"))
            elif isinstance(x, (SR,)):
                kinds.append(_real_np.dtype("float64"))
            elif isinstance(x, SA):
                kinds.append(x.dtype)
            else:
                kinds.append(x)
        return _real_np.result_type(*kinds)

    def diag(self, a, k=0):
        r = _real_np.diag(a, k)
        return r.view(SA) if isobj(r) else self._wrap(r)

    def trace(self, a, **k):
        if is_sym(a):
            a = _o(a)
            r = ZERO
            for i in range(min(a.shape)):
                r = r + a[i, i]
            return r
        return self._wrap(_real_np.trace(a, **k))

    def matmul(self, a, b):
        return self.dot(a, b) if (is_sym(a) or is_sym(b)) else self._wrap(_real_np.matmul(a, b))

    def squeeze(self, a, axis=None):
        r = _real_np.squeeze(a, axis=axis)
        return r.view(SA) if isinstance(r, np.ndarray) and isobj(r) else r

    def expand_dims(self, a, axis):
        r = _real_np.expand_dims(a, axis)
        return r.view(SA) if isobj(r) else r

    def atleast_2d(self, a):
        r = _real_np.atleast_2d(a)
        return r.view(SA) if isobj(r) else self._wrap(r)

    def atleast_1d(self, a):
        r = _real_np.atleast_1d(a)
        return r.view(SA) if isobj(r) else self._wrap(r)

    def transpose(self, a, axes=None):
        r = _real_np.transpose(a, axes)
        return r.view(SA) if isobj(r) else r

    def ravel(self, a, **k):
        r = _real_np.ravel(a, **k)
        return r.view(SA) if isobj(r) else r

    def reshape(self, a, shape, **k):
        r = _real_np.reshape(a, shape, **k)
        return r.view(SA) if isobj(r) else r

    def flatnonzero(self, a):
        if is_sym(a):
            a = _o(a)
            return _real_np.array([i for i, x in enumerate(a.ravel()) if _truthy(x)], dtype=int)
        return _real_np.flatnonzero(a)

    def count_nonzero(self, a, **k):
        if is_sym(a):
            return int(sum(1 for x in _o(a).ravel() if _truthy(x)))
        return _real_np.count_nonzero(a, **k)

    def all(self, a, axis=None, **k):
        if isobj(a) or isinstance(a, SB):
            if isinstance(a, SB):
                return bool(a)
            for e in _real_np.asarray(a, dtype=object).ravel():
                if not bool(e):
                    return False
            return True
        return _real_np.all(a, axis=axis, **k)

    def any(self, a, axis=None, **k):
        if isobj(a) or isinstance(a, SB):
            if isinstance(a, SB):
                return bool(a)
            for e in _real_np.asarray(a, dtype=object).ravel():
                if bool(e):
                    return True
            return False
        return _real_np.any(a, axis=axis, **k)

    def log(self, x):
        if isinstance(x, (SR,)):
            return x._fn("log")
        if isobj(x):
            return _map(x, lambda e: _lift_scalar(e)._fn("log"))
        return self._wrap(_real_np.log(x))

    def array_equal(self, a, b, **k):
        if is_sym(a) or is_sym(b):
            a = _o(a)
            b = _o(b)
            if a.shape != b.shape:
                return False
            return all(bool(x == y) for x, y in zip(a.ravel(), b.ravel()))
        return _real_np.array_equal(a, b, **k)


def _smax(a, b):
    c = a < b
    if isinstance(c, (bool, np.bool_)):
        return b if c else a
    ta, tb = SR.lift(a).plain(), SR.lift(b).plain()
    return SR(z3.If(ta < tb, tb, ta))


def _vmax(a, b):
    if isinstance(a, np.ndarray):
        out = np.empty(a.shape, dtype=object)
        for idx in np.ndindex(*a.shape):
            out[idx] = _smax(a[idx], b[idx])
        return out.view(SA)
    return _smax(a, b)


def _o(a):
    if isinstance(a, np.ndarray) and isobj(a):
        return a
    if isinstance(a, (SR, SC, SI)):
        return a
    return lift_arr(a)


def _restack(f, t):
    t = list(t)
    if any(is_sym(x) for x in t):
        return f([_o(x) if not (isinstance(x, np.ndarray) and x.dtype.kind in "iub") else x.astype(object) for x in t]).view(SA)
    return SHIM._wrap(f(t))


SHIM = NPShim()
shim = SHIM
