"""Second-order forward-mode jets over SR (value, gradient and full Hessian with respect to three variables).

Running the real kernel code on arrays of jets differentiates THAT code exactly (no finite differences): the
Laplacian, curl and divergence of what the code computes become SR terms the solver can reason about."""
import numpy as np
from .sym import SR, SC, ZERO, ONE
from . import npshim as _nps

N = 3


class J:
    __array_ufunc__ = None

    def __init__(self, v, g=None, h=None):
        self.v = SR.lift(v)
        self.g = list(g) if g is not None else [ZERO] * N
        self.h = [list(r) for r in h] if h is not None else [[ZERO] * N for _ in range(N)]

    @staticmethod
    def var(v, i):
        return J(v, [ONE if k == i else ZERO for k in range(N)])

    @staticmethod
    def lift(o):
        return o if isinstance(o, J) else J(o)

    def _cplx(self, o):
        return isinstance(o, (JC, SC, complex, np.complexfloating))

    def __add__(self, o):
        if self._cplx(o):
            return JC.lift(self) + o
        o = J.lift(o)
        return J(self.v + o.v, [a + b for a, b in zip(self.g, o.g)], [[a + b for a, b in zip(r1, r2)] for r1, r2 in zip(self.h, o.h)])

    __radd__ = __add__

    def __neg__(self):
        return J(-self.v, [-a for a in self.g], [[-a for a in r] for r in self.h])

    def __sub__(self, o):
        if self._cplx(o):
            return JC.lift(self) - o
        return self + (-J.lift(o))

    def __rsub__(self, o):
        if self._cplx(o):
            return JC.lift(o) - self
        return J.lift(o) + (-self)

    def __mul__(self, o):
        if self._cplx(o):
            return JC.lift(self) * o
        o = J.lift(o)
        a, b = self, o
        g = [a.g[i] * b.v + a.v * b.g[i] for i in range(N)]
        h = [[a.h[i][j] * b.v + a.g[i] * b.g[j] + a.g[j] * b.g[i] + a.v * b.h[i][j] for j in range(N)] for i in range(N)]
        return J(a.v * b.v, g, h)

    __rmul__ = __mul__

    def chain(self, f, f1, f2):
        g = [f1 * self.g[i] for i in range(N)]
        h = [[f2 * self.g[i] * self.g[j] + f1 * self.h[i][j] for j in range(N)] for i in range(N)]
        return J(f, g, h)

    def inv(self):
        r = ONE / self.v
        return self.chain(r, -(r * r), 2 * r * r * r)

    def __truediv__(self, o):
        if self._cplx(o):
            return JC.lift(self) / o
        return self * J.lift(o).inv()

    def __rtruediv__(self, o):
        if self._cplx(o):
            return JC.lift(o) / self
        return J.lift(o) * self.inv()

    def __pow__(self, n):
        r = self
        for _ in range(int(n) - 1):
            r = r * self
        return r

    def sqrt(self):
        r = self.v.sqrt()
        ir = ONE / r
        return self.chain(r, ir / 2, -(ir * ir * ir) / 4)

    def exp(self):
        e = self.v.exp()
        return self.chain(e, e, e)

    def cos(self):
        c, s = self.v.cos(), self.v.sin()
        return self.chain(c, -s, -c)

    def sin(self):
        c, s = self.v.cos(), self.v.sin()
        return self.chain(s, c, -s)

    def __ne__(self, o):
        return self.v != J.lift(o).v

    def __eq__(self, o):
        return self.v == J.lift(o).v

    def __hash__(self):
        return id(self)

    def lap(self):
        return self.h[0][0] + self.h[1][1] + self.h[2][2]

    real = property(lambda self: self)
    imag = property(lambda self: J(ZERO))

    def conjugate(self):
        return self


class JC:
    """complex number whose parts are jets."""

    __array_ufunc__ = None

    def __init__(self, re, im=ZERO):
        self.re, self.im = J.lift(re), J.lift(im)

    @staticmethod
    def lift(o):
        if isinstance(o, JC):
            return o
        if isinstance(o, SC):
            return JC(J(o.re), J(o.im))
        if isinstance(o, (complex, np.complexfloating)):
            o = complex(o)
            return JC(J(SR.lift(o.real)), J(SR.lift(o.imag)))
        return JC(o, ZERO)

    def __add__(self, o):
        o = JC.lift(o)
        return JC(self.re + o.re, self.im + o.im)

    __radd__ = __add__

    def __neg__(self):
        return JC(-self.re, -self.im)

    def __sub__(self, o):
        o = JC.lift(o)
        return JC(self.re - o.re, self.im - o.im)

    def __rsub__(self, o):
        return JC.lift(o) - self

    def __mul__(self, o):
        o = JC.lift(o)
        return JC(self.re * o.re - self.im * o.im, self.re * o.im + self.im * o.re)

    __rmul__ = __mul__

    def __truediv__(self, o):
        o = JC.lift(o)
        d = (o.re * o.re + o.im * o.im).inv()
        return JC((self.re * o.re + self.im * o.im) * d, (self.im * o.re - self.re * o.im) * d)

    def __rtruediv__(self, o):
        return JC.lift(o) / self

    def __hash__(self):
        return id(self)

    real = property(lambda self: self.re)
    imag = property(lambda self: self.im)

    def conjugate(self):
        return JC(self.re, -self.im)


def install():
    for c in (J, JC):
        if c not in _nps.PROXY_TYPES:
            _nps.PROXY_TYPES.append(c)


def parts(o):
    """(re, im) jets of a scalar result."""
    if isinstance(o, JC):
        return o.re, o.im
    if isinstance(o, SC):
        return J(o.re), J(o.im)
    return J.lift(o), J(ZERO)


from .sym import _arrayize  # noqa: E402

_arrayize(J)
_arrayize(JC)
