"""python -m vf.main <ID> [--tier quick|thorough] [--replay path]"""
import argparse
import importlib
import json
import os
import sys
import time
import traceback


def main():
    ap = argparse.ArgumentParser()
    ap.add_argument("pid")
    ap.add_argument("--tier", default=os.environ.get("VERIF_TIER", "quick"))
    ap.add_argument("--replay")
    a = ap.parse_args()
    pid = a.pid.upper()
    seed = int(os.environ.get("VERIF_SEED", "0") or 0)
    from . import run

    if a.replay:
        rec = json.load(open(a.replay))
        res = run.run_concrete(pid, [(rec["obligation"], rec["family"], rec["params"])])
        r = res[0]
        print(json.dumps(r, indent=1, default=str))
        if r.get("error"):
            print("INCONCLUSIVE property=%s replay error" % pid)
            return 2
        if r.get("gap", 0.0) > run.GAP:
            print("VIOLATION property=%s replay=%s" % (pid, a.replay))
            return 1
        print("replay does not reproduce on the current tree")
        return 0

    os.environ["NUMBA_DISABLE_JIT"] = "1"
    from . import hook

    if pid in ("C18",):
        # parameter-flow check: the numerics run on plain NumPy floats (only the order tokens are symbolic)
        hook.REWRITE_NUMPY[0] = False
    hook.install()
    hook.trace_start()
    from . import sparse

    if hook.REWRITE_NUMPY[0]:
        sparse.install()
    mod = importlib.import_module("vf.props." + pid.lower())
    ctx = run.Ctx(pid, a.tier, seed)
    try:
        mod.run(ctx)
    except Exception as e:
        traceback.print_exc()
        from . import solve

        solve.close_pool()
        print("INCONCLUSIVE property=%s harness error during symbolic run: %s: %s" % (pid, type(e).__name__, str(e)[:300]))
        return 2
    return run.finish(ctx, mod)


if __name__ == "__main__":
    sys.exit(main())
