"""C03 - boundary operators are equivariant under motion, scaling and relabelling.

(a) kernels: K(Rx+t, Ry+t, Rn, Rn'; k) == K(x, y, n, n'; k) for every rotation R (quaternion parametrisation), every
    translation t, and K(sx, sy, n, n'; k/s) == s^-h K(x, y, n, n'; k) for every s > 0 - all regular Laplace, Helmholtz
    and modified Helmholtz kernels (real kernel code, QF_NRA with abstracted irrational functions);
(b) geometry: Grid._compute_geometric_quantities on a symbolic triangle is translation invariant and scales with the
    right powers of s;
(c) assembly: renumbering vertices and elements of a mesh permutes the assembled matrix term for term (regular and
    singular parts, uninterpreted kernel, free geometry);
(d) singular rules: for all 36 local vertex orders of an edge pair and all 9 positions of a shared vertex, the test and
    trial points the assembler pairs up on the singular set are the SAME physical point (symbolic one-point rule on
    the reference edge/vertex pushed through the code's own offset table and remaps);
(e) a swapped-normals flag on a set of domains is exactly equivalent to negating the normal field of those elements
    (regular and singular parts, double layer / adjoint double layer / hypersingular)."""
import itertools
import time
from fractions import Fraction as F
import numpy as np
import z3
from ..sym import SR, SC, ABS, MODE, ZERO, ONE, Explorer, term, cterm, rv, eq_formula
from ..npshim import SA, lift_arr, sym_array
from .. import world as W

LEVEL = "other"
EXPLANATION = (
    "Equivariance decided symbolically: kernel invariance under all rigid motions and scalings (NRA), geometry scaling laws, exact permutation "
    "equivariance of assembled matrices, correctness of the singular-rule remapping for every local vertex numbering, and equivalence of the "
    "swapped-normals flag with a negated normal field (polynomial identities with an uninterpreted kernel)."
)
ROUNDS = ((("z3", 15), ("cvc5", 15)), (("z3", 90), ("cvc5", 90), ("z3nl", 90)), (("z3", 300), ("cvc5", 300)))


def run(ctx):
    import bempp_cl.api as b
    import bempp_cl.core.numba_kernels as nk
    import bempp_cl.api.integration.duffy_galerkin as dg
    import bempp_cl.core.singular_assembler as sga

    thorough = ctx.thorough
    ctx.bound("(a) kernels", "one point pair, all rigid motions / scalings / wavenumbers")
    ctx.bound("(c)(e) assembly", "T4/T6/T7 with free geometry, regular order 1-2, singular order 1")
    ctx.bound("(d) remaps", "all 36 local vertex orders of two triangles on an edge, all 9 of two on a vertex, symbolic vertex coordinates")
    ctx.out("equality of singular PARTS under local cyclic rotation / orientation reversal (Duffy rules are not symmetric: holds only up to singular-quadrature error)")
    ctx.out("rotation equivariance of the assembled geometry arrays (follows from (a) and the rotation covariance of cross products; not encoded)")

    # ---------------- (a) kernel invariance
    MODE["div"] = "atoms"
    try:
        R_ = lambda n: z3.Real(n)
        x = [R_("x%d" % i) for i in range(3)]
        y = [R_("y%d" % i) for i in range(3)]
        n = [R_("n%d" % i) for i in range(3)]
        m = [R_("m%d" % i) for i in range(3)]
        t = [R_("t%d" % i) for i in range(3)]
        qw, qx, qy, qz = z3.Reals("qw qx qy qz")
        sc = z3.Real("sc")
        kr, ki, w = z3.Reals("kr ki w")
        M = [[qw * qw + qx * qx - qy * qy - qz * qz, 2 * (qx * qy - qw * qz), 2 * (qx * qz + qw * qy)],
             [2 * (qx * qy + qw * qz), qw * qw - qx * qx + qy * qy - qz * qz, 2 * (qy * qz - qw * qx)],
             [2 * (qx * qz - qw * qy), 2 * (qy * qz + qw * qx), qw * qw - qx * qx - qy * qy + qz * qz]]
        rot = lambda v: [sum(M[i][j] * v[j] for j in range(3)) for i in range(3)]
        arr = lambda lst, shape: lift_arr(np.array([SR(v_) if not isinstance(v_, SR) else v_ for v_ in lst], dtype=object).reshape(shape))

        def call(fn, X, Y, N, Mn, K):
            return fn(arr(X, (3,)), arr(Y, (3, 1)), arr(N, (3,)), arr(Mn, (3, 1)), arr(K, (len(K),)) if K else lift_arr(np.zeros(0)))[0]

        kernels = []
        for fam, K in (("laplace", []), ("helmholtz", [kr, ki]), ("modified_helmholtz", [w])):
            for kn in ("single_layer", "double_layer", "adjoint_double_layer"):
                kernels.append(("%s_%s_regular" % (fam, kn), K))
        first = True
        # rotation lemmas (proved as obligations of this run, then used as hypotheses of the rigid-motion claims):
        # a unit quaternion preserves inner products of difference and normal vectors
        dot = lambda p_, q_: sum(a_ * c_ for a_, c_ in zip(p_, q_))
        unit = qw * qw + qx * qx + qy * qy + qz * qz == 1
        x2 = [R_("x2_%d" % i) for i in range(3)]
        y2 = [R_("y2_%d" % i) for i in range(3)]
        n2 = [R_("n2_%d" % i) for i in range(3)]
        m2 = [R_("m2_%d" % i) for i in range(3)]

        def invariants(X, Y, N, Mn):
            dv, dv2 = [a_ - c_ for a_, c_ in zip(x, y)], [a_ - c_ for a_, c_ in zip(X, Y)]
            return [dot(dv2, dv2) == dot(dv, dv), dot(N, dv2) == dot(n, dv), dot(Mn, dv2) == dot(m, dv), dot(N, Mn) == dot(n, m)]

        # step 1 (lemmas): every rigid motion (unit quaternion + translation) preserves the four invariants
        rx, ry = [r_ + tt for r_, tt in zip(rot(x), t)], [r_ + tt for r_, tt in zip(rot(y), t)]
        for nm_, lem in zip(("dd", "nd", "md", "nm"), invariants(rx, ry, rot(n), rot(m))):
            ctx.prove("a/lemma/rigid-motion-preserves-%s" % nm_, lem, [unit], family="kernel_invariance", params={"lemma": nm_}, abs_cons=False, group="a-lemma")
        # step 2 (below): the kernels agree on ANY two configurations with equal invariants (x2, y2, n2, m2 fresh);
        # instantiating step 2 with the rigidly moved configuration and discharging its premises by step 1 gives the claim
        inv_hyps = invariants(x2, y2, n2, m2)
        for kname, K in kernels:
            fn = getattr(nk, kname)
            h = 1 if "single" in kname else 2
            for what in ("rigid", "scaling"):
                ABS.reset()
                if what == "rigid":
                    X2, Y2, N2, M2, K2 = x2, y2, n2, m2, K
                    hyp0 = list(inv_hyps)
                else:
                    Ks = [(SR(k_) / SR(sc)) for k_ in K]
                    X2, Y2, N2, M2, K2 = [sc * v_ for v_ in x], [sc * v_ for v_ in y], n, m, Ks
                    hyp0 = [sc > 0]
                ex = Explorer(assume=hyp0, max_paths=8)
                res = ex.run(lambda: (call(fn, x, y, n, m, K), call(fn, X2, Y2, N2, M2, K2)))
                ctx.paths += ex.paths
                for pi, (pc, out, exc) in enumerate(res):
                    if exc is not None:
                        raise exc
                    a, c = out
                    if what == "scaling":
                        f_ = SR(sc) if h == 1 else SR(sc) * SR(sc)
                        c = c * f_
                    ar, ai = cterm(a)
                    cr, cim = cterm(c)
                    claim = z3.And(ar == cr, ai == cim)
                    hyps = hyp0 + list(pc)
                    names = ABS.atoms_in(hyps + [claim])
                    hyps = hyps + [s_ > 0 for s_ in ABS.sqrt_args(names)]
                    sq = ABS.apps.get("sqrt", [])
                    if what == "rigid" and len(sq) == 2:
                        # intermediate lemma: the two distances are equal (then every exp/cos/sin/inv atom pair is congruent)
                        lem = sq[0][1] == sq[1][1]
                        ctx.prove("a/%s/%s/p%d/dist-equal" % (kname, what, pi), lem, hyps, family="kernel_invariance", params={"kernel": kname, "what": what}, abs_cons="cone", group="a-lemma")
                        hyps = hyps + [lem]
                    ctx.prove("a/%s/%s/p%d" % (kname, what, pi), claim, hyps, family="kernel_invariance", params={"kernel": kname, "what": what}, abs_cons="cone", group="a-kernel-" + what)
                    if first:
                        first = False
                        ctx.expect_sat("a/witness", hyps, abs_cons="cone", group="a-kernel-rigid")
                        ctx.twin("twin/kernel-not-invariant-under-shear", z3.And(*[p == q for p, q in zip(cterm(a), cterm(call(fn, [x[0] + x[1], x[1], x[2]], [y[0] + y[1], y[1], y[2]], n, m, K)))]), hyps, abs_cons="cone")
        ctx.concrete("kernel_invariance", "kernel_invariance", {})

    finally:
        MODE["div"] = "rational"

    # ---------------- (b) geometry: translation and scaling (exact rational arithmetic; sqrt atoms related by lemma chain)
    ABS.reset()
    g = W.symgrid("T1", tag="b", geometry="vertices")
    V = g._vertices
    q0 = {k_: getattr(g, k_) for k_ in ("_normals", "_volumes", "_integration_elements", "_diameters", "_jacobians", "_jacobian_inverse_transposed", "_centroids")}
    n0 = len(ABS.apps.get("sqrt", []))
    tv = [SR(z3.Real("tt%d" % d_)) for d_ in range(3)]
    s_ = SR(sc)
    # generic lemma, proved once over four fresh reals and then instantiated by substitution for every pair of norms
    ga, gr, gr2, gs = z3.Reals("ga gr gr2 gs")
    ctx.prove("b/lemma/generic-sqrt-scaling", gr2 == gs * gr, [gs > 0, ga > 0, gr >= 0, gr * gr == ga, gr2 >= 0, gr2 * gr2 == gs * gs * ga], family="geometry", params={"lemma": "sqrt(s^2 a) = s sqrt(a)"}, abs_cons=False, group="b-lemma")
    for what, newV, laws in (("translate", np.array([[V[d_, i] + tv[d_] for i in range(3)] for d_ in range(3)], dtype=object),
                               {"_normals": 0, "_volumes": 0, "_integration_elements": 0, "_diameters": 0, "_jacobians": 0, "_jacobian_inverse_transposed": 0}),
                              ("scale", np.array([[V[d_, i] * s_ for i in range(3)] for d_ in range(3)], dtype=object),
                               {"_normals": 0, "_volumes": 2, "_integration_elements": 2, "_diameters": 1, "_jacobians": 1, "_jacobian_inverse_transposed": -1, "_centroids": 1})):
        g._vertices = lift_arr(newV)
        g._compute_geometric_quantities()
        sq = ABS.apps.get("sqrt", [])
        chain = []
        pos = [a_ > 0 for a_, _ in sq[:n0]]
        if what == "translate":
            if len(sq) != n0:
                chain = None  # translated norms must hit the very same atoms
        else:
            for arg2, r2 in sq[n0:]:
                found = None
                for arg1, r1 in sq[:n0]:
                    for pw, fac in ((2, sc), (4, sc * sc)):
                        ident = arg2 == fac * fac * arg1
                        zs = z3.Solver()
                        zs.set("timeout", 3000)
                        zs.add(z3.Not(ident))
                        if zs.check() == z3.unsat:
                            found = (arg1, r1, fac, ident)
                            break
                    if found:
                        break
                if found is None:
                    chain = None
                    break
                arg1, r1, fac, ident = found
                ctx.prove("b/lemma/arg-scaling/%s" % r2, ident, [], family="geometry", params={"atom": str(r2)}, abs_cons=False, group="b-lemma")
                chain.append(r2 == fac * r1)  # instance of the generic lemma (premises: the identity above, the atoms' defining lemmas, arg > 0, s > 0)
        if chain is None:
            ctx.prove("b/%s/norm-atoms-unrelated" % what, z3.BoolVal(False), [], family="geometry", params={"what": what}, abs_cons=False, group="b-geometry")
            continue
        for attr, power in laws.items():
            a_ = np.asarray(getattr(g, attr), dtype=object).ravel()
            c_ = np.asarray(q0[attr], dtype=object).ravel()
            claims = []
            for p_, q_ in zip(a_, c_):
                if power >= 0:
                    rhs = q_
                    for _ in range(power):
                        rhs = rhs * s_
                    claims.append(eq_formula(p_, rhs))
                else:
                    claims.append(eq_formula(p_ * s_, q_))
            hyps = [sc > 0] + pos + chain
            ctx.prove("b/%s/%s" % (what, attr), z3.And(*claims), hyps, family="geometry", params={"what": what, "attr": attr}, abs_cons="cone", group="b-geometry")
    ctx.twin("twin/volume-scales-linearly", eq_formula(np.asarray(g._volumes, dtype=object).ravel()[0], np.asarray(q0["_volumes"], dtype=object).ravel()[0] * s_), [sc > 0] + pos + (chain or []), abs_cons="cone")

    import os
    if os.environ.get('VF_DEV_ONLY_AB'):
        return
    # ---------------- (c) permutation equivariance of assembled matrices
    t0 = time.time()
    cfgs = [("T7", "laplace", "single_layer", "laplace_single_layer", "", False, None, "P", 2), ("T4", "helmholtz", "double_layer", "helmholtz_double_layer", "y", True, 1.2 + 0.3j, "DP", 1)]
    if thorough:
        cfgs += [("T6", "laplace", "hypersingular", "laplace_single_layer", "", False, None, "P", 1), ("T5", "laplace", "adjoint_double_layer", "laplace_adjoint_double_layer", "x", False, None, "P", 1)]
    rng = np.random.RandomState(ctx.seed + 3)
    for ci, (mesh, fam, opn, kname, normals, cplx, k, kind, order) in enumerate(cfgs):
        ABS.reset()
        v, e, d = W.mesh(mesh)
        NE, NV = e.shape[1], v.shape[1]
        pe = rng.permutation(NE)  # new element j is old element pe[j]
        pv = rng.permutation(NV)  # new vertex j is old vertex pv[j]
        inv_pv = np.argsort(pv)
        g1 = W.symgrid((v, e, d), tag="c%d" % ci)
        e2 = inv_pv[e[:, pe]]
        g2 = W.symgrid((v[:, pv], e2, [d[i] for i in pe]), tag="unused%d" % ci)
        # the permuted grid carries the SAME geometry symbols, permuted
        g2._vertices = g1._vertices[:, pv].view(SA)
        for attr in ("_normals", "_integration_elements", "_jacobians", "_jacobian_inverse_transposed", "_volumes", "_diameters", "_centroids"):
            setattr(g2, attr, getattr(g1, attr)[pe].view(SA))
        for gd_attr, src in (("vertices", "_vertices"), ("normals", "_normals"), ("integration_elements", "_integration_elements"), ("jacobians", "_jacobians"), ("jac_inv_trans", "_jacobian_inverse_transposed"), ("volumes", "_volumes")):
            setattr(g2._grid_data_double, gd_attr, getattr(g2, src))
        W.set_orders(order, 1)
        uf = W.UFKernel("Kc%d" % ci, normals=normals, complex_=cplx)
        args = () if k is None else (k,)
        with W.patched(*W.install_uf([kname], uf)):
            mats = []
            for g_ in (g1, g2):
                kw = {}
                sp = b.function_space(g_, kind, 1 if kind == "P" else 0, **kw)
                mats.append((sp, getattr(getattr(b.operators.boundary, fam), opn)(sp, sp, sp, *args).weak_form().to_dense()))
        (s1, A1), (s2, A2) = mats
        # dof correspondence: P1 dofs follow vertices, DP0 dofs follow elements
        n_ = s1.global_dof_count
        dofmap = np.zeros(n_, dtype=int)
        for el2 in range(NE):
            for li in range(s1.number_of_shape_functions):
                dofmap[int(s2.local2global[el2, li])] = int(s1.local2global[pe[el2], li])
        params = {"mesh": mesh, "family": fam, "op": opn, "kind": kind, "order": order, "pe": [int(i) for i in pe], "pv": [int(i) for i in pv]}
        cl = []
        for i in range(n_):
            for j in range(n_):
                cl.append(eq_formula(A2[i, j], A1[dofmap[i], dofmap[j]]))
        for j in range(0, len(cl), 12):
            ctx.prove("c%d/%s/%s/%d" % (ci, mesh, opn, j // 12), z3.And(*cl[j : j + 12]), [], family="permutation", params=params, abs_cons=False, group="c-permutation")
        ctx.concrete("permutation/%d" % ci, "permutation", params)
    ctx.encode_secs["c"] = round(time.time() - t0, 2)

    # ---------------- (d) singular remap lands on the shared entity, all local numberings
    t0 = time.time()
    s = z3.Real("s")
    u = z3.Real("u")
    real_rule, real_count = dg.rule, dg.number_of_quadrature_points

    def sym_rule(order, adjacency):
        if adjacency == "edge_adjacent":
            p = lift_arr(np.array([[SR(s)], [ZERO]], dtype=object))
            return p, p.copy(), lift_arr(np.array([ONE], dtype=object))
        if adjacency == "vertex_adjacent":
            p = lift_arr(np.array([[ZERO], [ZERO]], dtype=object))
            return p, p.copy(), lift_arr(np.array([ONE], dtype=object))
        p = lift_arr(np.array([[SR(s)], [SR(u)]], dtype=object))
        return p, p.copy(), lift_arr(np.array([ONE], dtype=object))

    perms3 = list(itertools.permutations(range(3)))
    base_v = np.array([[0, 1, 0, 1.2, -0.7], [0, 0, 1, 1.1, 0.9], [0, 0, 0, 0.3, 0.5]])
    Vs = sym_array("sv", (3, 5))
    nq = 0
    with W.patched((dg, "rule", sym_rule), (dg, "number_of_quadrature_points", lambda order, adj: 1), (sga._duffy_galerkin, "rule", sym_rule), (sga._duffy_galerkin, "number_of_quadrature_points", lambda order, adj: 1)):
        for shared_kind, tri0, tri1 in (("edge", [0, 1, 2], [1, 3, 2]), ("vertex", [0, 1, 2], [2, 3, 4])):
            for pa in perms3:
                for pb in perms3:
                    e_ = np.array([[tri0[i] for i in pa], [tri1[i] for i in pb]]).T
                    g = b.Grid(base_v, e_)
                    supp = np.ones(2, dtype=bool)
                    rule = sga._SingularQuadratureRuleInterfaceGalerkin(g, 1, supp, supp)
                    tp, sp_, wts, te, se, toff, soff, woff, nqp = rule.get_arrays()
                    cl = []
                    for k_ in range(len(te)):
                        T_, S_ = int(te[k_]), int(se[k_])
                        if T_ == S_:
                            continue
                        pt = tp[:, int(toff[k_])]
                        ps = sp_[:, int(soff[k_])]

                        def glob(el, p):
                            v0, v1, v2 = [Vs[:, int(e_[i, el])] for i in range(3)]
                            return [v0[d_] + (v1[d_] - v0[d_]) * p[0] + (v2[d_] - v0[d_]) * p[1] for d_ in range(3)]

                        X, Y = glob(T_, pt), glob(S_, ps)
                        cl += [eq_formula(X[d_], Y[d_]) for d_ in range(3)]
                    expected_pairs = 2
                    ok = sum(1 for k_ in range(len(te)) if int(te[k_]) != int(se[k_])) == expected_pairs
                    ctx.prove("d/%s/%s-%s" % (shared_kind, "".join(map(str, pa)), "".join(map(str, pb))), z3.And(*(cl + [z3.BoolVal(bool(ok))])), [], family="remap", params={"kind": shared_kind, "pa": list(pa), "pb": list(pb)}, abs_cons=False, group="d-remap-" + shared_kind)
                    nq += 1
    ctx.sample({"d": "remap obligations", "count": nq})
    ctx.concrete("remap", "remap", {})
    ctx.encode_secs["d"] = round(time.time() - t0, 2)

    # ---------------- (e) swapped-normals flag == negated normal field
    t0 = time.time()
    ecfgs = [("T7", "laplace", "double_layer", "laplace_double_layer", "y", False, None, [1]), ("T6", "helmholtz", "adjoint_double_layer", "helmholtz_adjoint_double_layer", "x", True, 1.2 + 0.3j, [1]), ("T7", "laplace", "hypersingular", "laplace_single_layer", "", False, None, [0, 2])]
    if thorough:
        ecfgs += [("T6", "modified_helmholtz", "double_layer", "modified_helmholtz_double_layer", "y", False, 0.8, [0]), ("T6", "helmholtz", "hypersingular", "helmholtz_single_layer", "", True, 1.2 + 0.3j, [1])]
    for ci, (mesh, fam, opn, kname, normals, cplx, k, swapped) in enumerate(ecfgs):
        ABS.reset()
        v, e, d = W.mesh(mesh)
        g1 = W.symgrid((v, e, d), tag="e%d" % ci)
        W.set_orders(1, 1)
        uf = W.UFKernel("Ke%d" % ci, normals=normals, complex_=cplx)
        args = () if k is None else (k,)
        with W.patched(*W.install_uf([kname], uf)):
            dom = b.function_space(g1, "P", 1, swapped_normals=swapped)
            dual = b.function_space(g1, "DP", 1, swapped_normals=swapped) if opn != "hypersingular" else dom
            A = getattr(getattr(b.operators.boundary, fam), opn)(dom, dual, dual, *args).weak_form().to_dense()
            # same grid, no flag, normals of the swapped domains negated
            neg = np.array([(-1 if d[i] in swapped else 1) for i in range(len(d))])
            saved = g1._normals
            nn = np.asarray(saved, dtype=object).copy()
            for i in range(len(d)):
                if neg[i] < 0:
                    nn[i] = [-c_ for c_ in nn[i]]
            g1._normals = lift_arr(nn)
            g1._grid_data_double.normals = g1._normals
            dom2 = b.function_space(g1, "P", 1)
            dual2 = b.function_space(g1, "DP", 1) if opn != "hypersingular" else dom2
            Bm = getattr(getattr(b.operators.boundary, fam), opn)(dom2, dual2, dual2, *args).weak_form().to_dense()
            g1._normals = saved
            g1._grid_data_double.normals = saved
        params = {"mesh": mesh, "family": fam, "op": opn, "swapped": swapped}
        cl = [f_ for _, f_ in W.entries_eq(A, Bm)]
        for j in range(0, len(cl), 12):
            ctx.prove("e%d/%s/%s/%d" % (ci, mesh, opn, j // 12), z3.And(*cl[j : j + 12]), [], family="swapped_normals", params=params, abs_cons=False, group="e-swapped-normals")
        ctx.concrete("swapped_normals/%d" % ci, "swapped_normals", params)
    ctx.encode_secs["e"] = round(time.time() - t0, 2)


# ----------------------------------------------------------------------------- concrete side (JIT)
def concrete(family, params):
    import bempp_cl.api as b
    import bempp_cl.core.numba_kernels as nk

    rng = np.random.RandomState(7)
    if family == "kernel_invariance":
        worst, det = 0.0, None
        for trial in range(6):
            x, y, n, m = rng.rand(3), rng.rand(3) + 1.5, rng.rand(3) - 0.5, rng.rand(3) - 0.5
            q = rng.rand(4) - 0.5
            q /= np.linalg.norm(q)
            qw, qx, qy, qz = q
            M = np.array([[qw * qw + qx * qx - qy * qy - qz * qz, 2 * (qx * qy - qw * qz), 2 * (qx * qz + qw * qy)], [2 * (qx * qy + qw * qz), qw * qw - qx * qx + qy * qy - qz * qz, 2 * (qy * qz - qw * qx)], [2 * (qx * qz - qw * qy), 2 * (qy * qz + qw * qx), qw * qw - qx * qx - qy * qy + qz * qz]])
            t = rng.rand(3) * 3
            s = 0.3 + rng.rand() * 2
            for fam, K in (("laplace", []), ("helmholtz", [1.3, [0.0, 0.4, -0.3][trial % 3]]), ("modified_helmholtz", [0.9])):
                for kn in ("single_layer", "double_layer", "adjoint_double_layer"):
                    fn = getattr(nk, "%s_%s_regular" % (fam, kn))
                    a = fn(x, y.reshape(3, 1), n, m.reshape(3, 1), np.array(K, dtype=float))[0]
                    c = fn(M @ x + t, (M @ y + t).reshape(3, 1), M @ n, (M @ m).reshape(3, 1), np.array(K, dtype=float))[0]
                    h = 1 if kn == "single_layer" else 2
                    c2 = fn(s * x, (s * y).reshape(3, 1), n, m.reshape(3, 1), np.array(K, dtype=float) / s)[0] * s**h
                    for nm_, val in (("rigid", c), ("scaling", c2)):
                        gap = abs(val - a) / abs(a)
                        if gap > worst:
                            worst, det = gap, "%s_%s/%s" % (fam, kn, nm_)
        return {"gap": worst if worst > 1e-9 else 0.0, "case": det, "key": "kernel_invariance/%s" % (det if worst > 1e-9 else "")}
    if family == "permutation":
        v, e, d = W.mesh(params["mesh"])
        v, e = np.asarray(v, dtype=float), np.asarray(e)
        pe, pv = np.array(params["pe"]), np.array(params["pv"])
        inv_pv = np.argsort(pv)
        g1 = b.Grid(v, e, np.asarray(d, dtype="uint32"))
        g2 = b.Grid(v[:, pv], inv_pv[e[:, pe]], np.asarray([d[i] for i in pe], dtype="uint32"))
        b.GLOBAL_PARAMETERS.quadrature.regular = params["order"]
        b.GLOBAL_PARAMETERS.quadrature.singular = 2
        k = {"laplace": None, "helmholtz": 1.2 + 0.3j, "modified_helmholtz": 0.8}[params["family"]]
        args = () if k is None else (k,)
        mats = []
        for g_ in (g1, g2):
            sp = b.function_space(g_, params["kind"], 1 if params["kind"] == "P" else 0)
            mats.append((sp, getattr(getattr(b.operators.boundary, params["family"]), params["op"])(sp, sp, sp, *args).weak_form().to_dense()))
        (s1, A1), (s2, A2) = mats
        n_ = s1.global_dof_count
        dofmap = np.zeros(n_, dtype=int)
        for el2 in range(e.shape[1]):
            for li in range(s1.number_of_shape_functions):
                dofmap[s2.local2global[el2, li]] = s1.local2global[pe[el2], li]
        gap = float(np.max(np.abs(A2 - A1[np.ix_(dofmap, dofmap)])) / np.max(np.abs(A1)))
        return {"gap": gap if gap > 1e-10 else 0.0, "key": "permutation/%s/%s" % (params["family"], params["op"])}
    if family == "remap":
        # the real Duffy rules: test and trial points of the edge/vertex rules must approach each other on the shared entity
        import bempp_cl.core.singular_assembler as sga

        base_v = np.array([[0, 1, 0, 1.2, -0.7], [0, 0, 1, 1.1, 0.9], [0, 0, 0, 0.3, 0.5]])
        worst = 0.0
        det = None
        perms3 = list(itertools.permutations(range(3)))
        for shared_kind, tri0, tri1 in (("edge", [0, 1, 2], [1, 3, 2]), ("vertex", [0, 1, 2], [2, 3, 4])):
            for pa in perms3:
                for pb in perms3:
                    e_ = np.array([[tri0[i] for i in pa], [tri1[i] for i in pb]]).T
                    g = b.Grid(base_v, e_)
                    sp = b.function_space(g, "DP", 0)
                    # the singular part of the single layer between the two elements must be finite and equal to a brute-force high-order value
                    b.GLOBAL_PARAMETERS.quadrature.singular = 6
                    A = b.operators.boundary.laplace.single_layer(sp, sp, sp).weak_form().to_dense()
                    b.GLOBAL_PARAMETERS.quadrature.singular = 8
                    A2 = b.operators.boundary.laplace.single_layer(sp, sp, sp).weak_form().to_dense()
                    gap = abs(A[0, 1] - A2[0, 1]) / abs(A2[0, 1])
                    if gap > worst:
                        worst, det = gap, "%s %s %s" % (shared_kind, pa, pb)
        b.GLOBAL_PARAMETERS.quadrature.singular = 4
        return {"gap": worst if worst > 1e-3 else 0.0, "worst": worst, "case": det, "key": "remap/%s" % (det if worst > 1e-3 else "")}
    if family == "swapped_normals":
        v, e, d = W.mesh(params["mesh"])
        v, e = np.asarray(v, dtype=float), np.asarray(e)
        swapped = params["swapped"]
        g = b.Grid(v, e, np.asarray(d, dtype="uint32"))
        e2 = e.copy()
        for i in range(e.shape[1]):
            if d[i] in swapped:
                e2[:, i] = e[[0, 2, 1], i]
        gflip = b.Grid(v, e2, np.asarray(d, dtype="uint32"))
        b.GLOBAL_PARAMETERS.quadrature.regular = 4
        b.GLOBAL_PARAMETERS.quadrature.singular = 6
        k = {"laplace": None, "helmholtz": 1.2 + 0.3j, "modified_helmholtz": 0.8}[params["family"]]
        args = () if k is None else (k,)
        opn = params["op"]
        mk = getattr(getattr(b.operators.boundary, params["family"]), opn)
        dom = b.function_space(g, "DP", 0, swapped_normals=swapped) if opn != "hypersingular" else b.function_space(g, "P", 1, swapped_normals=swapped)
        A = mk(dom, dom, dom, *args).weak_form().to_dense()
        dom2 = b.function_space(gflip, "DP", 0) if opn != "hypersingular" else b.function_space(gflip, "P", 1)
        Bm = mk(dom2, dom2, dom2, *args).weak_form().to_dense()
        gap = float(np.max(np.abs(A - Bm)) / np.max(np.abs(Bm)))
        # physically reversed elements change the local vertex order, so only agreement up to singular-quadrature error is expected
        return {"gap": gap if gap > 5e-3 else 0.0, "rel_diff_flag_vs_reversed_orientation": gap, "key": "swapped_normals/%s/%s" % (params["family"], opn)}
    if family == "geometry":
        return {"gap": 0.0, "key": "geometry"}
    raise KeyError(family)
