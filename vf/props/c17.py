"""C17 - FMM-mode operators equal dense-mode ones given an exact far-field evaluator.

The real FMM glue (fmm_assembler.py evaluators, exafmm.py interface with its near-field correction,
fmm/helpers.py local interaction operators and dense_interaction_evaluator, space.map_to_points) is run
symbolically with a fake `exafmm` package and an uninterpreted kernel family G0 (value), G1..G3 (gradient
w.r.t. the target), zero for coincident points; the dense path uses the same family through the kernel-level
relations  SL = G0,  DL = -sum_i G_i n_y,i,  ADL = sum_i G_i n_x,i  (these relations are themselves proved
against the real Numba kernels and the real fmm/helpers kernels in the 'lemma' group)."""
import os
import sys
import time
import types
import numpy as np
import z3
from ..sym import SR, SC, ABS, ZERO, MODE, Explorer, eq_formula, term, cterm
from ..npshim import SA, lift_arr, sym_array
from .. import world as W

LEVEL = "translation_validation"
EXPLANATION = (
    "FMM-mode matvec vs dense-mode matvec through the real code with an exact-summation backend and an uninterpreted kernel family, for a symbolic "
    "vector and free geometry arrays (polynomial identities with UFs, cvc5/z3); plus kernel-level lemmas tying the family relations to the real kernels."
)
ROUNDS = ((("cvc5", 30), ("z3", 3)), (("cvc5", 200), ("z3", 60)), (("cvc5", 600),))


class Family:
    def __init__(self, name, complex_):
        self.complex = complex_
        self.f = [z3.Function("%s%d" % (name, i), *([z3.RealSort()] * 6), z3.RealSort()) for i in range(4)]
        self.fi = [z3.Function("%s%di" % (name, i), *([z3.RealSort()] * 6), z3.RealSort()) for i in range(4)] if complex_ else None

    def val(self, i, x, y):
        a = [z3.simplify(term(c), som=True, mul_to_power=False) for c in list(x) + list(y)]
        if self.complex:
            return SC(SR(self.f[i](*a)), SR(self.fi[i](*a)))
        return SR(self.f[i](*a))


class GradFamily(Family):
    """Helmholtz family for the Maxwell magnetic-field operator and the Maxwell potentials: the dense code calls the
    single-layer kernel for G0 and forms the gradient INLINE as G0 (ik r - 1)/r^2 (x - y); the family therefore keeps G0
    uninterpreted and DEFINES G1..G3 by that formula (r = the sqrt atom of |x - y|^2, shared with the dense code). That the
    real fmm/helpers.helmholtz_kernel satisfies the same relation for every complex k is the lemma group 'lemma/helmholtz/grad'."""

    def __init__(self, name, k):
        Family.__init__(self, name, True)
        self.k = complex(k)

    def val(self, i, x, y):
        g0 = Family.val(self, 0, x, y)
        if i == 0:
            return g0
        diff = [SR.lift(a) - SR.lift(c) for a, c in zip(x, y)]
        d2 = diff[0] * diff[0] + diff[1] * diff[1] + diff[2] * diff[2]
        r = d2.sqrt()
        return g0 * (SC.lift(1j * self.k) * r - 1) / (r * r) * diff[i - 1]


def same(p, q):
    return all(z3.simplify(term(a) - term(c)).eq(z3.RealVal(0)) for a, c in zip(p, q))


def fake_exafmm(fam_by_mode):
    """a package `exafmm` with laplace / helmholtz / modified_helmholtz modules doing exact summation."""
    pkg = types.ModuleType("exafmm")

    def mk(modname, cls, mode):
        m = types.ModuleType(modname)
        m.init_sources = lambda pts, ch: ("src", pts)
        m.init_targets = lambda pts: ("trg", pts)
        setattr(m, cls, lambda *a, **k: "fmm")

        class Tree:
            pass

        def setup(src, trg, fmm):
            t = Tree()
            t.src, t.trg, t.ch = src[1], trg[1], None
            return t

        m.setup = setup

        def update_charges(tree, vec):
            tree.ch = vec

        m.update_charges = update_charges
        m.clear_values = lambda tree: None

        def evaluate(tree, fmm):
            fam = fam_by_mode[mode]
            out = np.empty((len(tree.trg), 4), dtype=object)
            out.fill(SC(ZERO, ZERO) if fam.complex else ZERO)
            for i, x in enumerate(tree.trg):
                for j, y in enumerate(tree.src):
                    if same(x, y):
                        continue
                    for c in range(4):
                        out[i, c] = out[i, c] + fam.val(c, x, y) * tree.ch[j]
            return out.view(SA)

        m.evaluate = evaluate
        return m

    pkg.laplace = mk("exafmm.laplace", "LaplaceFmm", "laplace")
    pkg.helmholtz = mk("exafmm.helmholtz", "HelmholtzFmm", "helmholtz")
    pkg.modified_helmholtz = mk("exafmm.modified_helmholtz", "ModifiedHelmholtzFmm", "modified_helmholtz")
    return pkg


def helper_kernel(fam):
    def k(target_points, source_points, kernel_parameters, dtype, result_type):
        nt, ns = target_points.shape[1], source_points.shape[1]
        out = np.empty(4 * nt * ns, dtype=object)
        out.fill(SC(ZERO, ZERO) if fam.complex else ZERO)
        for ti in range(nt):
            x = list(target_points[:, ti])
            for j in range(ns):
                y = list(source_points[:, j])
                if same(x, y):
                    continue
                for c in range(4):
                    out[ti * 4 * ns + 4 * j + c] = fam.val(c, x, y)
        return out.view(SA)

    return k


def dense_kernels(fam, kind):
    """(regular, singular) UF-family versions of the dense kernels."""
    def value(x, y, nx, ny):
        if kind == "sl":
            return fam.val(0, x, y)
        if kind == "dl":
            r = None
            for i in range(3):
                t = fam.val(1 + i, x, y) * ny[i]
                r = t if r is None else r + t
            return -r
        r = None
        for i in range(3):
            t = fam.val(1 + i, x, y) * nx[i]
            r = t if r is None else r + t
        return r

    def reg(tp, yp, tn, yn, params):
        n = yp.shape[1]
        out = np.empty(n, dtype=object)
        for j in range(n):
            out[j] = value(list(tp), list(yp[:, j]), None if tn is None else list(tn), None if yn is None else list(yn[:, j]))
        return out.view(SA)

    def sing(tp, yp, tn, yn, params):
        n = yp.shape[1]
        out = np.empty(n, dtype=object)
        for j in range(n):
            out[j] = value(list(tp[:, j]), list(yp[:, j]), None if tn is None else list(tn), None if yn is None else list(yn))
        return out.view(SA)

    return reg, sing


MODES = {"laplace": ("laplace", False, ()), "helmholtz": ("helmholtz", True, (1.3 + 0.4j,)), "modified_helmholtz": ("modified_helmholtz", False, (0.75,))}


def boundary_cfgs(thorough):
    seg = lambda s, **kw: dict(segments=s, **kw)
    out = [
        # (mode, op, mesh, trial, test, order, dense_evaluation flag)
        ("laplace", "single_layer", "T7", ("P", 1, {}), ("P", 1, {}), 2, False),
        ("laplace", "double_layer", "T5", ("P", 1, {"include_boundary_dofs": True}), ("DP", 0, {}), 1, True),
        ("helmholtz", "adjoint_double_layer", "T4", ("DP", 0, {}), ("P", 1, {}), 1, False),
        ("laplace", "hypersingular", "T5", ("P", 1, {"include_boundary_dofs": True}), ("P", 1, {"include_boundary_dofs": True}), 1, False),
        ("helmholtz", "electric_field", "T2", ("RWG", 0, {"include_boundary_dofs": True}), ("SNC", 0, {"include_boundary_dofs": True}), 1, False),
        ("modified_helmholtz", "single_layer", "T9", ("DP", 1, seg([1])), ("P", 1, seg([0, 1], include_boundary_dofs=True)), 1, False),
        # test and trial spaces on DIFFERENT grids (no singular part, no near-field correction; target-side data must come from the test grid)
        ("helmholtz", "hypersingular", ("T2", "T2"), ("P", 1, {"include_boundary_dofs": True}), ("P", 1, {"include_boundary_dofs": True}), 1, False),
        ("laplace", "adjoint_double_layer", ("T2", "T1"), ("DP", 0, {}), ("DP", 1, {}), 1, True),
        # hypersingular / Maxwell on segment spaces (curl, RWG and divergence point maps of restricted spaces)
        ("laplace", "hypersingular", "T9", ("P", 1, seg([1, 2], include_boundary_dofs=True)), ("P", 1, seg([1, 2], include_boundary_dofs=True)), 1, False),
    ]
    # Maxwell magnetic field (gradient family; see GradFamily): two different grids (pure far field), and one grid whose element
    # pairs are all adjacent (the near-field correction must cancel the whole far field and leave the singular part)
    rb = ("RWG", 0, {"include_boundary_dofs": True})
    sb = ("SNC", 0, {"include_boundary_dofs": True})
    out += [("helmholtz", "magnetic_field", ("T2", "T1"), rb, sb, 1, False), ("helmholtz", "magnetic_field", "T2", rb, sb, 1, True)]
    if thorough:
        out += [
            ("helmholtz", "magnetic_field", ("T2", "T2"), rb, sb, 2, True),
            ("helmholtz", "magnetic_field", "T9", ("RWG", 0, seg([1, 2], include_boundary_dofs=True)), ("SNC", 0, seg([0, 1], include_boundary_dofs=True)), 1, False),
            ("helmholtz", "magnetic_field", "T4", ("RWG", 0, {}), ("SNC", 0, {}), 1, False),
        ]
    if thorough:
        out += [
            ("helmholtz", "hypersingular", "T4", ("P", 1, {}), ("P", 1, {}), 2, True),
            ("modified_helmholtz", "hypersingular", "T5", ("P", 1, {"include_boundary_dofs": True}), ("P", 1, {"include_boundary_dofs": True}), 1, False),
            ("helmholtz", "double_layer", "T7", ("P", 1, {}), ("P", 1, seg([0, 2], include_boundary_dofs=True)), 2, False),
            ("helmholtz", "electric_field", "T4", ("RWG", 0, {}), ("SNC", 0, {}), 2, True),
            ("laplace", "adjoint_double_layer", "T6", ("DP", 0, {}), ("DP", 1, {}), 1, False),
            ("modified_helmholtz", "hypersingular", ("T2", "T2"), ("P", 1, {"include_boundary_dofs": True}), ("P", 1, {"include_boundary_dofs": True}), 2, True),
            ("helmholtz", "electric_field", "T9", ("RWG", 0, seg([1, 2], include_boundary_dofs=True)), ("SNC", 0, seg([1, 2], include_boundary_dofs=True)), 1, False),
            ("helmholtz", "double_layer", ("T4", "T2"), ("P", 1, {}), ("DP", 0, {}), 1, False),
        ]
    only = os.environ.get("VF_C17_ONLY")  # development aid: comma separated config indices (config 0 is always kept)
    if only:
        keep = {0} | {int(x) for x in only.split(",")}
        extra = [("modified_helmholtz", "hypersingular", ("T2", "T2"), ("P", 1, {"include_boundary_dofs": True}), ("P", 1, {"include_boundary_dofs": True}), 1, True),
                 ("modified_helmholtz", "hypersingular", ("T2", "T2"), ("P", 1, {"include_boundary_dofs": True}), ("P", 1, {"include_boundary_dofs": True}), 2, False),
                 ("helmholtz", "hypersingular", ("T2", "T2"), ("P", 1, {"include_boundary_dofs": True}), ("P", 1, {"include_boundary_dofs": True}), 2, True)]
        out = [c for i, c in enumerate(out + extra) if i in keep]
    return out


def run(ctx):
    import bempp_cl.api as b
    import bempp_cl.core.numba_kernels as nk
    import bempp_cl.api.fmm.helpers as fh
    import bempp_cl.api.fmm.fmm_assembler as fa

    ctx.bound("meshes", "T2/T4/T5/T7/T9 (<=6 elements); + T6 thorough")
    ctx.bound("quadrature orders", "regular 1..2 (set globally, as the property states), singular 1")
    ctx.out("reproduction of the recorded reference vectors (needs the real exafmm library)")
    ctx.stub("exafmm package -> exact summation of the uninterpreted kernel family over the same point sources, zero for coincident points")
    ctx.stub("fmm/helpers.{laplace,helmholtz,modified_helmholtz}_kernel -> same family (near-field correction), zero for coincident points")
    fams = {m: Family("G" + m[0], MODES[m][1]) for m in MODES}
    fam_by_mode = dict(fams)  # what the fake exafmm sums: the plain family, or the gradient family for the Maxwell curl operators
    pkg = fake_exafmm(fam_by_mode)
    saved = {n: sys.modules.get(n) for n in ("exafmm", "exafmm.laplace", "exafmm.helmholtz", "exafmm.modified_helmholtz")}
    sys.modules["exafmm"] = pkg
    for sub in ("laplace", "helmholtz", "modified_helmholtz"):
        sys.modules["exafmm." + sub] = getattr(pkg, sub)
    try:
        for ci, (mode, op, mesh, trial, test, order, dense_eval) in enumerate(boundary_cfgs(ctx.thorough)):
            t0 = time.time()
            ABS.reset()
            fa.clear_fmm_cache()
            fam = fams[mode]
            if op == "magnetic_field":
                fam = GradFamily("Gm", MODES[mode][2][0])
            fam_by_mode[mode] = fam
            if isinstance(mesh, tuple):
                g = W.symgrid(mesh[0], tag="f%d" % ci)
                g2 = W.symgrid(mesh[1], tag="h%d" % ci)
                mesh = "%s->%s" % mesh
            else:
                g = g2 = W.symgrid(mesh, tag="f%d" % ci)
            W.set_orders(order, 1)
            b.GLOBAL_PARAMETERS.fmm.dense_evaluation = dense_eval
            prefix = {"laplace": "laplace", "helmholtz": "helmholtz", "modified_helmholtz": "modified_helmholtz"}[mode]
            tr = [(fh, mode + "_kernel", helper_kernel(fam))]
            for kind, nm in (("sl", "single_layer"), ("dl", "double_layer"), ("adl", "adjoint_double_layer")):
                reg, sing = dense_kernels(fam, kind)
                tr += [(nk, "%s_%s_regular" % (prefix, nm), reg), (nk, "%s_%s_singular" % (prefix, nm), sing)]
            args = MODES[mode][2]
            params = {"mode": mode, "op": op, "mesh": mesh, "trial": list(trial), "test": list(test), "order": order, "dense_evaluation": dense_eval}
            with W.patched(*tr):
                dom = b.function_space(g, trial[0], trial[1], **trial[2])
                dual = b.function_space(g2, test[0], test[1], **test[2])
                if op in ("electric_field", "magnetic_field"):
                    mk = lambda a: getattr(b.operators.boundary.maxwell, op)(dom, dom, dual, *args, assembler=a)
                else:
                    mk = lambda a: getattr(getattr(b.operators.boundary, mode), op)(dom, dual, dual, *args, assembler=a)
                Ad = mk("default_nonlocal").weak_form().to_dense()
                x = sym_array("x%d" % ci, (dom.global_dof_count,), complex_=fam.complex and ci % 2 == 0)
                try:
                    Af = mk("fmm").weak_form()
                    yf = Af @ x
                except (ValueError, IndexError, TypeError, AttributeError, KeyError) as e:
                    # the library raised on a supported combination: a violation candidate (replayed on the JIT build)
                    ctx.violation("bnd%d/%s/%s/%s/raises" % (ci, mode, op, mesh), "fmm_vs_dense", params, "FMM-mode operator raised %s: %s" % (type(e).__name__, str(e)[:200]))
                    ctx.log("bnd%d %s %s %s: FMM path raised %s" % (ci, mode, op, mesh, type(e).__name__))
                    continue
                yd = (Ad @ x).view(SA)
            n = 0
            if os.environ.get("VF_DEV_DIFF") and ci > 0:
                from ..sym import term as _t
                d0 = np.asarray(yf, dtype=object).ravel()[0] - np.asarray(yd, dtype=object).ravel()[0]
                print("DEVDIFF", ci, str(z3.simplify(_t(d0), som=True))[:1500])
            for idx, f in W.entries_eq(np.asarray(yf, dtype=object).ravel(), np.asarray(yd, dtype=object).ravel()):
                ctx.prove("bnd%d/%s/%s/%s/%d" % (ci, mode, op, mesh, idx[0]), f, [], family="fmm_vs_dense", params=params, abs_cons=False, group="bnd%d-%s-%s" % (ci, mode, op))
                n += 1
            if ci == 0:
                ctx.twin("twin/fmm-without-one-source", eq_formula(yf[0], yd[0] + x[0] * fam.val(0, list(g.data().vertices[:, 0]), list(g.data().vertices[:, 5]))), [], abs_cons=False)
            ctx.sample({"config": params, "rows": n, "encode_s": round(time.time() - t0, 2)})
            if ctx.thorough or ci in (2, 4, 6, 8, 9, 10):
                ctx.concrete("fmm_vs_dense/%d" % ci, "fmm_vs_dense", params)
            ctx.log("bnd%d %s %s %s: %d rows %.1fs" % (ci, mode, op, mesh, n, time.time() - t0))

        # ---- potentials
        pot_cfgs = [("laplace", "single_layer", "T2", ("DP", 0, {}), 2), ("helmholtz", "double_layer", "T2", ("P", 1, {"include_boundary_dofs": True}), 1)]
        if ctx.thorough:
            pot_cfgs += [("modified_helmholtz", "double_layer", "T5", ("P", 1, {"include_boundary_dofs": True}), 2), ("helmholtz", "single_layer", "T4", ("DP", 1, {"segments": [1]}), 1)]
        pot_cfgs += [("helmholtz", "maxwell.magnetic_field", "T2", ("RWG", 0, {"include_boundary_dofs": True}), 1)]
        if ctx.thorough:
            pot_cfgs += [("helmholtz", "maxwell.electric_field", "T2", ("RWG", 0, {"include_boundary_dofs": True}), 1),
                         ("helmholtz", "maxwell.magnetic_field", "T9", ("RWG", 0, {"segments": [1, 2], "include_boundary_dofs": True}), 2)]
        if os.environ.get("VF_C17_ONLY"):
            pot_cfgs = [c for c in pot_cfgs if c[1].startswith("maxwell")] + [("helmholtz", "maxwell.electric_field", "T2", ("RWG", 0, {"include_boundary_dofs": True}), 1)]
        for ci, (mode, op, mesh, spc, order) in enumerate(pot_cfgs):
            t0 = time.time()
            ABS.reset()
            fa.clear_fmm_cache()
            fam = fams[mode]
            if op.startswith("maxwell"):
                fam = GradFamily("Gq", MODES[mode][2][0])
            fam_by_mode[mode] = fam
            g = W.symgrid(mesh, tag="q%d" % ci)
            W.set_orders(order, 1)
            b.GLOBAL_PARAMETERS.fmm.dense_evaluation = bool(ci % 2)
            pts = sym_array("pt%d" % ci, (3, 2))
            tr = [(fh, mode + "_kernel", helper_kernel(fam))]
            for kind, nm in (("sl", "single_layer"), ("dl", "double_layer")):
                reg, sing = dense_kernels(fam, kind)
                tr += [(nk, "%s_%s_regular" % (mode, nm), reg)]
            args = MODES[mode][2]
            with W.patched(*tr):
                sp = b.function_space(g, spc[0], spc[1], **spc[2])
                c = sym_array("c%d" % ci, (sp.global_dof_count,))
                gf = b.GridFunction(sp, coefficients=c)
                potf = getattr(b.operators.potential.maxwell, op.split(".")[1]) if op.startswith("maxwell") else getattr(getattr(b.operators.potential, mode), op)
                pd = potf(sp, pts, *args).evaluate(gf)
                pf = potf(sp, pts, *args, assembler="fmm").evaluate(gf)
            params = {"mode": mode, "op": op, "mesh": mesh, "space": list(spc), "order": order}
            for idx, f in W.entries_eq(np.asarray(pf, dtype=object).ravel(), np.asarray(pd, dtype=object).ravel()):
                ctx.prove("pot%d/%s/%s/%d" % (ci, mode, op, idx[0]), f, [], family="fmm_pot", params=params, abs_cons=False, group="pot%d-%s-%s" % (ci, mode, op))
            if ctx.thorough or ci in (1, 2):
                ctx.concrete("fmm_pot/%d" % ci, "fmm_pot", params)
            ctx.log("pot%d %s %s: %.1fs" % (ci, mode, op, time.time() - t0))
    finally:
        b.GLOBAL_PARAMETERS.fmm.dense_evaluation = False
        for n, m in saved.items():
            if m is None:
                sys.modules.pop(n, None)
            else:
                sys.modules[n] = m

    # ---- kernel-level lemmas: the family relations hold for the real kernels
    MODE["div"] = "atoms"
    try:
        ABS.reset()
        R = lambda n: SR(z3.Real(n))
        x = [R("x%d" % i) for i in range(3)]
        y = [R("y%d" % i) for i in range(3)]
        nx = [R("nx%d" % i) for i in range(3)]
        ny = [R("ny%d" % i) for i in range(3)]
        col = lambda v: lift_arr(np.array([[c] for c in v], dtype=object))
        vec = lambda v: lift_arr(np.array(v, dtype=object))
        for mode, kp, hyp, lab in (("laplace", [], [], ""), ("modified_helmholtz", [R("w")], [], ""), ("helmholtz", [R("kr"), R("ki")], [z3.Real("ki") != 0], ""), ("helmholtz", [R("kr"), SR.const(0)], [], "-real-k")):
            ABS.reset()
            kparr = vec(kp) if kp else lift_arr(np.zeros(0))
            ex = Explorer(assume=hyp, max_paths=8)

            def call():
                h = getattr(fh, mode + "_kernel")(col(x), col(y), kparr, np.dtype("float64"), np.dtype("complex128" if mode == "helmholtz" else "float64"))
                sl = getattr(nk, mode + "_single_layer_regular")(vec(x), col(y), vec(nx), col(ny), kparr)[0]
                dl = getattr(nk, mode + "_double_layer_regular")(vec(x), col(y), vec(nx), col(ny), kparr)[0]
                adl = getattr(nk, mode + "_adjoint_double_layer_regular")(vec(x), col(y), vec(nx), col(ny), kparr)[0]
                return h, sl, dl, adl

            res = ex.run(call)
            ctx.paths += ex.paths
            for pi, (pc, out, exc) in enumerate(res):
                if exc is not None:
                    raise exc
                h, sl, dl, adl = out
                hyps = list(hyp) + list(pc)
                dlr = -(h[1] * ny[0] + h[2] * ny[1] + h[3] * ny[2])
                adlr = h[1] * nx[0] + h[2] * nx[1] + h[3] * nx[2]
                rels = [("sl", sl, h[0]), ("dl", dl, dlr), ("adl", adl, adlr)]
                if mode == "helmholtz":
                    # the relation GradFamily is built on: grad_x G = G (ik r - 1)/r^2 (x - y) for the real helper kernel
                    df = [x[i] - y[i] for i in range(3)]
                    rr = (df[0] * df[0] + df[1] * df[1] + df[2] * df[2]).sqrt()
                    kk = SC(kp[0], kp[1])
                    for i in range(3):
                        rels.append(("grad%d" % i, h[1 + i], SC.lift(h[0]) * (SC(ZERO, SR.const(1)) * kk * rr - 1) / (rr * rr) * df[i]))
                for nm, a, c in rels:
                    ar, ai = cterm(a)
                    cr, cim = cterm(c)
                    claim = z3.And(ar == cr, ai == cim)
                    names = ABS.atoms_in(hyps + [claim])
                    hh = hyps + [s > 0 for s in ABS.sqrt_args(names)]
                    ctx.prove("lemma/%s/%s/path%d%s" % (mode, nm, pi, lab), claim, hh, family="kernel_lemma", params={"mode": mode, "kernel": nm}, abs_cons="cone", group="lemma")
    finally:
        MODE["div"] = "rational"


# ----------------------------------------------------------------------------- concrete side (JIT)
def _install_fake_numeric():
    import numpy as np

    pkg = types.ModuleType("exafmm")

    def mk(modname, cls):
        m = types.ModuleType(modname)
        m.init_sources = lambda p, c: ("s", p)
        m.init_targets = lambda p: ("t", p)
        setattr(m, cls, lambda *a, **k: "fmm")
        m.setup = lambda s, t, f: {"s": s, "t": t}
        m.update_charges = lambda tree, vec: None
        m.clear_values = lambda tree: None
        m.evaluate = lambda tree, f: None
        return m

    pkg.laplace = mk("exafmm.laplace", "LaplaceFmm")
    pkg.helmholtz = mk("exafmm.helmholtz", "HelmholtzFmm")
    pkg.modified_helmholtz = mk("exafmm.modified_helmholtz", "ModifiedHelmholtzFmm")
    sys.modules["exafmm"] = pkg
    for sub in ("laplace", "helmholtz", "modified_helmholtz"):
        sys.modules["exafmm." + sub] = getattr(pkg, sub)


def concrete(family, params):
    import bempp_cl.api as b

    _install_fake_numeric()
    b.GLOBAL_PARAMETERS.fmm.dense_evaluation = True  # the library's own exact-summation switch
    if family == "kernel_lemma":
        import bempp_cl.core.numba_kernels as nk
        import bempp_cl.api.fmm.helpers as fh

        mode, nm = params["mode"], params["kernel"]
        rng = np.random.RandomState(3)
        worst = 0.0
        for kp in {"laplace": [np.zeros(0)], "modified_helmholtz": [np.array([0.8])], "helmholtz": [np.array([1.2, 0.0]), np.array([1.2, 0.5])]}[mode]:
            x, y, nx, ny = rng.rand(3), rng.rand(3) + 2, rng.rand(3), rng.rand(3)
            h = getattr(fh, mode + "_kernel")(x.reshape(3, 1), y.reshape(3, 1), kp, np.dtype("float64"), np.dtype("complex128" if mode == "helmholtz" else "float64"))
            if nm.startswith("grad"):
                i = int(nm[4:])
                r = np.linalg.norm(x - y)
                a = h[1 + i]
                c = h[0] * (1j * (kp[0] + 1j * kp[1]) * r - 1) / r**2 * (x - y)[i]
                worst = max(worst, abs(a - c) / abs(c))
                continue
            full = {"sl": "single_layer", "dl": "double_layer", "adl": "adjoint_double_layer"}[nm]
            a = getattr(nk, "%s_%s_regular" % (mode, full))(x, y.reshape(3, 1), nx, ny.reshape(3, 1), kp)[0]
            c = {"sl": h[0], "dl": -(h[1:4] @ ny), "adl": h[1:4] @ nx}[nm]
            worst = max(worst, abs(a - c) / abs(c))
        return {"gap": worst if worst > 1e-10 else 0.0, "key": "kernel_lemma/%s/%s" % (mode, nm)}
    mname = params["mesh"]
    if "->" in mname:
        m1, m2 = mname.split("->")
        v, e, d = W.mesh(m1)
        g = b.Grid(np.asarray(v, dtype=float), np.asarray(e), np.asarray(d, dtype="uint32"))
        v, e, d = W.mesh(m2)
        rot = np.array([[0.8, -0.6, 0.0], [0.6, 0.8, 0.0], [0.0, 0.0, 1.0]]) @ np.array([[1.0, 0, 0], [0, 0.0, -1.0], [0, 1.0, 0.0]])
        g2 = b.Grid(rot @ (np.asarray(v, dtype=float) * np.array([[1.0], [0.7], [1.3]])) + np.array([[4.0], [0.5], [1.0]]), np.asarray(e), np.asarray(d, dtype="uint32"))
    else:
        v, e, d = W.mesh(mname)
        g = g2 = b.Grid(np.asarray(v, dtype=float), np.asarray(e), np.asarray(d, dtype="uint32"))
    b.GLOBAL_PARAMETERS.quadrature.regular = params["order"]
    b.GLOBAL_PARAMETERS.quadrature.singular = 1
    mode = params["mode"]
    args = MODES[mode][2]
    rng = np.random.RandomState(1)
    if family == "fmm_vs_dense":
        tr, te = params["trial"], params["test"]
        dom = b.function_space(g, tr[0], tr[1], **tr[2])
        dual = b.function_space(g2, te[0], te[1], **te[2])
        if params["op"] in ("electric_field", "magnetic_field"):
            mk = lambda a: getattr(b.operators.boundary.maxwell, params["op"])(dom, dom, dual, *args, assembler=a)
        else:
            mk = lambda a: getattr(getattr(b.operators.boundary, mode), params["op"])(dom, dual, dual, *args, assembler=a)
        Ad = mk("default_nonlocal").weak_form().to_dense()
        x = rng.rand(dom.global_dof_count) + 1j * rng.rand(dom.global_dof_count)
        segkey = "/segment-space" if ("segments" in tr[2] or "segments" in te[2] or "support_elements" in tr[2] or "support_elements" in te[2]) else ""
        try:
            Af = mk("fmm").weak_form()
            yf = Af @ x
        except Exception as e:
            return {"gap": 1.0, "raised": "%s: %s" % (type(e).__name__, str(e)[:300]), "key": "fmm_vs_dense/%s/%s%s/raises" % (mode, params["op"], segkey)}
        yd = Ad @ x
        gap = float(np.max(np.abs(yf - yd)) / np.max(np.abs(yd)))
        return {"gap": gap if gap > 1e-10 else 0.0, "max_rel_diff": gap, "key": "fmm_vs_dense/%s/%s%s" % (mode, params["op"], segkey)}
    if family == "fmm_pot":
        sp = params["space"]
        space = b.function_space(g, sp[0], sp[1], **sp[2])
        pts = np.array([[3.0, -2.0], [0.5, 1.0], [2.0, 0.3]])
        c = rng.rand(space.global_dof_count)
        gf = b.GridFunction(space, coefficients=c)
        op = params["op"]
        potf = getattr(b.operators.potential.maxwell, op.split(".")[1]) if op.startswith("maxwell") else getattr(getattr(b.operators.potential, mode), op)
        pd = potf(space, pts, *args).evaluate(gf)
        pf = potf(space, pts, *args, assembler="fmm").evaluate(gf)
        gap = float(np.max(np.abs(pf - pd)) / np.max(np.abs(pd)))
        segkey = "/segment-space" if ("segments" in sp[2] or "support_elements" in sp[2]) else ""
        return {"gap": gap if gap > 1e-10 else 0.0, "max_rel_diff": gap, "key": "fmm_pot/%s/%s%s" % (mode, params["op"], segkey)}
    raise KeyError(family)
