"""C05 - Helmholtz-family operators are consistent with Laplace and with each other.

Decided at kernel level on the real kernel code (all points, normals and wavenumbers over the reals, sqrt/exp/cos/sin
abstracted with sound lemmas) and at dispatch level on the real constructors:
 (i)   k = i*w: every Helmholtz kernel with parameters (0, w) equals the modified Helmholtz kernel with parameter w
       (regular and singular variants); the boundary and potential constructors called with 1j*w return the modified
       Helmholtz operator for w;
 (ii)  K(-conj k) == conj K(k) for every Helmholtz kernel (regular, singular, far field, fmm helper) and
       (-conj k)^2 == conj(k^2) in the hypersingular term;
 (iii) K_SL(x,y) == K_SL(y,x);  K_ADL(x,y;n_x) == K_DL(y,x;n_x)  (adjoint double layer is the transposed double layer),
       for Laplace, Helmholtz and modified Helmholtz, regular and singular variants; singular variant == regular
       variant pointwise;
 (iv)  first-order term in k at k=0: d/dk of the Helmholtz single-layer kernel is i/(4 pi), of the double-layer
       kernels 0 (forward-mode jets through the real kernel code) - the exact algebraic consequence of the stated
       small-|k| expansion."""
import time
from fractions import Fraction as F
import numpy as np
import z3
from ..sym import SR, SC, ABS, MODE, ZERO, ONE, Explorer, term, cterm, rv
from ..npshim import SA, lift_arr

LEVEL = "other"
EXPLANATION = (
    "Kernel-level relations of the Helmholtz family decided on the real Numba kernel source for all real inputs (QF_NRA with abstracted irrational "
    "functions + congruence), plus path exploration of the constructors' wavenumber dispatch with a symbolic wavenumber."
)
ROUNDS = ((("z3", 15), ("cvc5", 15)), (("z3", 90), ("cvc5", 90), ("z3nl", 90)), (("z3", 300), ("cvc5", 300)))


def R(n):
    return SR(z3.Real(n))


def vec(v):
    return lift_arr(np.array(list(v), dtype=object))


def col(v):
    return lift_arr(np.array([[c] for c in v], dtype=object))


class Jet:
    """first-order forward-mode jet a + b*eps (eps^2 = 0) over SR."""

    __array_ufunc__ = None

    def __init__(self, a, b=ZERO):
        self.a, self.b = SR.lift(a), SR.lift(b)

    @staticmethod
    def lift(o):
        return o if isinstance(o, Jet) else Jet(o)

    def __add__(self, o):
        if isinstance(o, JC):
            return JC(self + o.re, o.im)
        if isinstance(o, (SC, complex)):
            return NotImplemented
        o = Jet.lift(o)
        return Jet(self.a + o.a, self.b + o.b)

    __radd__ = __add__

    def __sub__(self, o):
        o = Jet.lift(o)
        return Jet(self.a - o.a, self.b - o.b)

    def __rsub__(self, o):
        o = Jet.lift(o)
        return Jet(o.a - self.a, o.b - self.b)

    def __mul__(self, o):
        if isinstance(o, (complex, np.complexfloating)):
            o = complex(o)
            return JC(self * o.real, self * o.imag)
        if isinstance(o, SC):
            return NotImplemented
        o = Jet.lift(o)
        return Jet(self.a * o.a, self.a * o.b + self.b * o.a)

    __rmul__ = __mul__

    def __truediv__(self, o):
        o = Jet.lift(o)
        return Jet(self.a / o.a, (self.b * o.a - self.a * o.b) / (o.a * o.a))

    def __rtruediv__(self, o):
        return Jet.lift(o) / self

    def __neg__(self):
        return Jet(-self.a, -self.b)

    def __pow__(self, n):
        r = self
        for _ in range(int(n) - 1):
            r = r * self
        return r

    def sqrt(self):
        s = self.a.sqrt()
        return Jet(s, self.b / (2 * s))

    def exp(self):
        e = self.a.exp()
        return Jet(e, e * self.b)

    def cos(self):
        return Jet(self.a.cos(), -(self.a.sin() * self.b))

    def sin(self):
        return Jet(self.a.sin(), self.a.cos() * self.b)

    def __ne__(self, o):
        return self.a != Jet.lift(o).a

    def __eq__(self, o):
        return self.a == Jet.lift(o).a

    def __hash__(self):
        return id(self)


class JC:
    """complex number with jet parts."""

    __array_ufunc__ = None

    def __init__(self, re, im):
        self.re, self.im = Jet.lift(re), Jet.lift(im)

    def __add__(self, o):
        if isinstance(o, JC):
            return JC(self.re + o.re, self.im + o.im)
        return JC(self.re + o, self.im)

    __radd__ = __add__


from .. import npshim as _nps

_nps.PROXY_TYPES += [Jet, JC]


def run(ctx):
    MODE["div"] = "atoms"
    try:
        _run(ctx)
    finally:
        MODE["div"] = "rational"


def _run(ctx):
    import bempp_cl.api as b
    import bempp_cl.core.numba_kernels as nk
    import bempp_cl.api.fmm.helpers as fh

    ctx.bound("inputs", "all real points, normals, wavenumber parts kr, ki, w; test and trial point distinct (sqrt arguments > 0)")
    ctx.out("the size of the remainders |V_k - V_0 - ik/(4 pi) m m'| <= |k|^2 D/(4 pi) m m' etc. (Taylor remainder of exp(ikr): analytic); symmetry of the singular PARTS of assembled matrices (holds up to singular-quadrature error)")
    x = [R("x%d" % i) for i in range(3)]
    y = [R("y%d" % i) for i in range(3)]
    nx = [R("nx%d" % i) for i in range(3)]
    ny = [R("ny%d" % i) for i in range(3)]
    kr, ki, w = R("kr"), R("ki"), R("w")

    def reg(name, X, Y, NX, NY, kp):
        return getattr(nk, name + "_regular")(vec(X), col(Y), vec(NX), col(NY), vec(kp) if kp else lift_arr(np.zeros(0)))[0]

    def sing(name, X, Y, NX, NY, kp):
        return getattr(nk, name + "_singular")(col(X), col(Y), vec(NX), vec(NY), vec(kp) if kp else lift_arr(np.zeros(0)))[0]

    def explore(fn, assume=()):
        ex = Explorer(assume=list(assume), max_paths=16)
        res = ex.run(fn)
        ctx.paths += ex.paths
        out = []
        for pc, r, exc in res:
            if exc is not None:
                raise exc
            out.append((list(pc), r))
        return out

    def prove_eq(name, a, c, hyps, family, params, group):
        ar, ai = cterm(a)
        cr, cim = cterm(c)
        claim = z3.And(ar == cr, ai == cim)
        names = ABS.atoms_in(list(hyps) + [claim])
        hh = list(hyps) + [s > 0 for s in ABS.sqrt_args(names)]
        return ctx.prove(name, claim, hh, family=family, params=params, abs_cons="cone", group=group), hh

    t0 = time.time()
    fams = {"laplace": [], "helmholtz": [kr, ki], "modified_helmholtz": [w]}
    first = True
    # ---------------- (iii) symmetry / adjointness, singular == regular
    for fam, kp in fams.items():
        for variant, f in (("regular", reg), ("singular", sing)):
            ABS.reset()
            paths = explore(lambda: (f(fam + "_single_layer", x, y, nx, ny, kp), f(fam + "_single_layer", y, x, ny, nx, kp), f(fam + "_adjoint_double_layer", x, y, nx, ny, kp), f(fam + "_double_layer", y, x, ny, nx, kp)))
            for pi, (pc, (sl_xy, sl_yx, adl_xy, dl_yx)) in enumerate(paths):
                prove_eq("iii/%s/%s/sl-symmetric/p%d" % (fam, variant, pi), sl_xy, sl_yx, pc, "kernel_sym", {"family": fam, "variant": variant, "rel": "sl"}, "iii-symmetry")
                ob, hh = prove_eq("iii/%s/%s/adl-is-transposed-dl/p%d" % (fam, variant, pi), adl_xy, dl_yx, pc, "kernel_sym", {"family": fam, "variant": variant, "rel": "adl"}, "iii-symmetry")
                if first:
                    first = False
                    ctx.expect_sat("iii/witness", hh, abs_cons="cone", group="iii-symmetry")
                    ar, ai = cterm(adl_xy)
                    cr, cim = cterm(dl_yx)
                    ctx.twin("twin/adl-equals-minus-dl", z3.And(ar == -cr, ai == -cim), hh, abs_cons="cone")
        for kname in ("single_layer", "double_layer", "adjoint_double_layer"):
            ABS.reset()
            paths = explore(lambda: (reg(fam + "_" + kname, x, y, nx, ny, kp), sing(fam + "_" + kname, x, y, nx, ny, kp)))
            for pi, (pc, (a, c)) in enumerate(paths):
                prove_eq("iii/%s/%s/singular-equals-regular/p%d" % (fam, kname, pi), a, c, pc, "kernel_variants", {"family": fam, "kernel": kname}, "iii-variants")
    ctx.encode_secs["iii"] = round(time.time() - t0, 2)

    # ---------------- (i) k = i w
    t0 = time.time()
    for kname in ("single_layer", "double_layer", "adjoint_double_layer"):
        for variant, f in (("regular", reg), ("singular", sing)):
            ABS.reset()
            paths = explore(lambda: (f("helmholtz_" + kname, x, y, nx, ny, [SR.const(0), w]), f("modified_helmholtz_" + kname, x, y, nx, ny, [w])), assume=[w.t != 0])
            for pi, (pc, (h, m)) in enumerate(paths):
                prove_eq("i/%s/%s/p%d" % (kname, variant, pi), h, m, [w.t != 0] + pc, "kernel_iw", {"kernel": kname, "variant": variant}, "i-imaginary-wavenumber")
    # dispatch of the constructors with a symbolic imaginary wavenumber
    from .. import world as W

    v, e, d = W.mesh("T4")
    g = b.Grid(np.asarray(v, dtype=float), np.asarray(e))
    p1 = b.function_space(g, "P", 1)
    dp0 = b.function_space(g, "DP", 0)
    K0 = SC(ZERO, w)
    pts = np.array([[2.0], [0.3], [0.1]])
    for nm, mk in (("boundary/single_layer", lambda k: b.operators.boundary.helmholtz.single_layer(dp0, dp0, dp0, k)), ("boundary/double_layer", lambda k: b.operators.boundary.helmholtz.double_layer(p1, dp0, dp0, k)),
                   ("boundary/adjoint_double_layer", lambda k: b.operators.boundary.helmholtz.adjoint_double_layer(dp0, p1, p1, k)), ("boundary/hypersingular", lambda k: b.operators.boundary.helmholtz.hypersingular(p1, p1, p1, k)),
                   ("potential/single_layer", lambda k: b.operators.potential.helmholtz.single_layer(dp0, pts, k)), ("potential/double_layer", lambda k: b.operators.potential.helmholtz.double_layer(p1, pts, k))):
        import bempp_cl.api.assembly.assembler as asm

        orig_init = asm.PotentialAssembler.__init__

        def rec_init(self, space, points, operator_descriptor, *a, **k):
            orig_init(self, space, points, operator_descriptor, *a, **k)
            self._vf_desc = operator_descriptor

        try:
            with W.patched((asm.PotentialAssembler, "__init__", rec_init)):
                ex = Explorer(assume=[w.t != 0], max_paths=8)
                res_ = ex.run(lambda: mk(K0))
                ctx.paths += ex.paths
            bad_ = [r for r in res_ if r[2] is not None]
            if bad_:
                raise bad_[0][2]
            op = res_[0][1]
            desc = op.descriptor if hasattr(op, "descriptor") else getattr(op._evaluator, "_vf_desc", None)
            ident = desc.identifier if desc is not None else "?"
            opts = list(desc.options) if desc is not None else []
            ok = ident.startswith("modified_helmholtz") and len(opts) == 1
            claim = z3.And(z3.BoolVal(bool(ok)), (term(opts[0]) == w.t) if ok else z3.BoolVal(False))
            ctx.prove("i/dispatch/%s" % nm, claim, [], family="dispatch", params={"op": nm}, abs_cons=False, group="i-dispatch")
        except (ValueError, TypeError, AttributeError) as ex_:
            ctx.violation("i/dispatch/%s/raises" % nm, "dispatch", {"op": nm}, "%s: %s" % (type(ex_).__name__, str(ex_)[:200]))
    ctx.encode_secs["i"] = round(time.time() - t0, 2)

    # ---------------- (ii) k -> -conj k conjugates
    t0 = time.time()
    hk = [("helmholtz_single_layer", "rs"), ("helmholtz_double_layer", "rs"), ("helmholtz_adjoint_double_layer", "rs"), ("helmholtz_far_field_single_layer", "f"), ("helmholtz_far_field_double_layer", "f")]
    for name, kinds in hk:
        variants = [("regular", reg), ("singular", sing)] if kinds == "rs" else [("farfield", lambda n_, X, Y, NX, NY, kp: getattr(nk, n_)(vec(X), col(Y), vec(NX), col(NY), vec(kp))[0])]
        for variant, f in variants:
            ABS.reset()
            paths = explore(lambda: (f(name, x, y, nx, ny, [kr, ki]), f(name, x, y, nx, ny, [-kr, ki])))
            for pi, (pc, (a, c)) in enumerate(paths):
                prove_eq("ii/%s/%s/p%d" % (name, variant, pi), c, SC.lift(a).conjugate(), pc, "kernel_conj", {"kernel": name, "variant": variant}, "ii-conjugation")
    ABS.reset()
    paths = explore(lambda: (fh.helmholtz_kernel(col(x), col(y), vec([kr, ki]), np.dtype("float64"), np.dtype("complex128")), fh.helmholtz_kernel(col(x), col(y), vec([-kr, ki]), np.dtype("float64"), np.dtype("complex128"))))
    for pi, (pc, (a, c)) in enumerate(paths):
        for comp in range(4):
            prove_eq("ii/fmm.helmholtz_kernel/%d/p%d" % (comp, pi), c[comp], SC.lift(a[comp]).conjugate(), pc, "kernel_conj", {"kernel": "fmm.helpers.helmholtz_kernel", "component": comp}, "ii-conjugation")
    k = SC(kr, ki)
    mk_ = SC(-kr, ki)
    ctx.prove("ii/k-squared", z3.And(*[p == q for p, q in zip(cterm(mk_ * mk_), cterm((k * k).conjugate()))]), [], family="kernel_conj", params={"kernel": "k^2"}, abs_cons=False, group="ii-conjugation")
    ctx.encode_secs["ii"] = round(time.time() - t0, 2)

    # ---------------- (iv) first-order term in k at 0 (jets through the real Helmholtz kernels)
    t0 = time.time()
    ABS.reset()
    kj = Jet(ZERO, ONE)  # k = 0 + 1*eps, real direction
    c4pi = SR.lift(nk.M_INV_4PI)
    for kname, exp_re, exp_im in (("single_layer", ZERO, c4pi), ("double_layer", ZERO, ZERO), ("adjoint_double_layer", ZERO, ZERO)):
        out = getattr(nk, "helmholtz_%s_regular" % kname)(vec(x), col(y), vec(nx), col(ny), lift_arr(np.array([kj, Jet(ZERO, ZERO)], dtype=object)))[0]
        # out is complex with Jet parts: real part jet, imaginary part jet
        re_, im_ = (out.re, out.im) if isinstance(out, (SC, JC)) else (out, Jet(ZERO))
        dre = re_.b if isinstance(re_, Jet) else ZERO
        dim = im_.b if isinstance(im_, Jet) else ZERO
        claim = z3.And(term(dre) == term(exp_re), term(dim) == term(exp_im))
        names = ABS.atoms_in([claim])
        hh = [s > 0 for s in ABS.sqrt_args(names)]
        ctx.prove("iv/d-dk-at-0/%s" % kname, claim, hh, family="kernel_jet", params={"kernel": kname}, abs_cons="cone", group="iv-first-order")
    ctx.encode_secs["iv"] = round(time.time() - t0, 2)
    for fam in ("kernel_sym", "kernel_iw", "kernel_conj", "dispatch"):
        ctx.concrete(fam, fam, {})


# ----------------------------------------------------------------------------- concrete side (JIT)
def concrete(family, params):
    import bempp_cl.api as b
    import bempp_cl.core.numba_kernels as nk
    from ..run import model_float

    rng = np.random.RandomState(5)
    model = params.get("_model") or {}
    worst = 0.0
    det = None

    def pts():
        return rng.rand(3) * 2 - 1, rng.rand(3) * 2 + 1.5, rng.rand(3) - 0.5, rng.rand(3) - 0.5

    def upd(name, a, c):
        nonlocal worst, det
        gap = abs(a - c) / max(abs(c), abs(a), 1e-300)
        if gap > worst:
            worst, det = gap, name

    def reg(name, X, Y, NX, NY, kp):
        return getattr(nk, name + "_regular")(X, Y.reshape(3, 1), NX, NY.reshape(3, 1), np.array(kp, dtype=float))[0]

    def sing(name, X, Y, NX, NY, kp):
        return getattr(nk, name + "_singular")(X.reshape(3, 1), Y.reshape(3, 1), NX, NY, np.array(kp, dtype=float))[0]

    trials = []
    if model:
        try:
            X = np.array([model_float(model.get("x%d" % i), 0.1 * i) for i in range(3)])
            Y = np.array([model_float(model.get("y%d" % i), 1.0 + i) for i in range(3)])
            NX = np.array([model_float(model.get("nx%d" % i), 0.3) for i in range(3)])
            NY = np.array([model_float(model.get("ny%d" % i), 0.2) for i in range(3)])
            kk = [model_float(model.get("kr"), 1.1), model_float(model.get("ki"), 0.4), model_float(model.get("w"), 0.7)]
            if np.linalg.norm(X - Y) > 1e-6:
                trials.append((X, Y, NX, NY, kk))
        except Exception:
            pass
    for t in range(8):
        X, Y, NX, NY = pts()
        trials.append((X, Y, NX, NY, [rng.uniform(-2, 2), [0.0, 0.6, -0.8][t % 3], rng.uniform(0.2, 1.5)]))
    if family in ("kernel_sym", "kernel_variants"):
        for X, Y, NX, NY, (kr, ki, w) in trials:
            for fam, kp in (("laplace", []), ("helmholtz", [kr, ki]), ("modified_helmholtz", [w])):
                for vn, f in (("regular", reg), ("singular", sing)):
                    upd("%s/%s/sl" % (fam, vn), f(fam + "_single_layer", X, Y, NX, NY, kp), f(fam + "_single_layer", Y, X, NY, NX, kp))
                    upd("%s/%s/adl" % (fam, vn), f(fam + "_adjoint_double_layer", X, Y, NX, NY, kp), f(fam + "_double_layer", Y, X, NY, NX, kp))
                for kn in ("single_layer", "double_layer", "adjoint_double_layer"):
                    upd("%s/%s/variants" % (fam, kn), reg(fam + "_" + kn, X, Y, NX, NY, kp), sing(fam + "_" + kn, X, Y, NX, NY, kp))
    elif family == "kernel_iw":
        for X, Y, NX, NY, (kr, ki, w) in trials:
            for kn in ("single_layer", "double_layer", "adjoint_double_layer"):
                for vn, f in (("regular", reg), ("singular", sing)):
                    upd("%s/%s" % (kn, vn), f("helmholtz_" + kn, X, Y, NX, NY, [0.0, w]), f("modified_helmholtz_" + kn, X, Y, NX, NY, [w]))
    elif family == "kernel_conj":
        for X, Y, NX, NY, (kr, ki, w) in trials:
            for kn in ("single_layer", "double_layer", "adjoint_double_layer"):
                for vn, f in (("regular", reg), ("singular", sing)):
                    upd("%s/%s" % (kn, vn), f("helmholtz_" + kn, X, Y, NX, NY, [-kr, ki]), np.conj(f("helmholtz_" + kn, X, Y, NX, NY, [kr, ki])))
            for kn in ("helmholtz_far_field_single_layer", "helmholtz_far_field_double_layer"):
                a = getattr(nk, kn)(X, Y.reshape(3, 1), NX, NY.reshape(3, 1), np.array([kr, ki]))[0]
                c = getattr(nk, kn)(X, Y.reshape(3, 1), NX, NY.reshape(3, 1), np.array([-kr, ki]))[0]
                upd(kn, c, np.conj(a))
    elif family == "dispatch":
        from .. import world as W

        v, e, d = W.mesh("T4")
        g = b.Grid(np.asarray(v, dtype=float), np.asarray(e))
        p1 = b.function_space(g, "P", 1)
        dp0 = b.function_space(g, "DP", 0)
        pts_ = np.array([[2.0], [0.3], [0.1]])
        f0 = b.GridFunction(dp0, coefficients=np.ones(4))
        f1 = b.GridFunction(p1, coefficients=np.arange(4.0))
        w = 0.7
        try:
            for nm, a, c in (("potential/single_layer", lambda: b.operators.potential.helmholtz.single_layer(dp0, pts_, 1j * w).evaluate(f0), lambda: b.operators.potential.modified_helmholtz.single_layer(dp0, pts_, w).evaluate(f0)),
                             ("potential/double_layer", lambda: b.operators.potential.helmholtz.double_layer(p1, pts_, 1j * w).evaluate(f1), lambda: b.operators.potential.modified_helmholtz.double_layer(p1, pts_, w).evaluate(f1)),
                             ("boundary/single_layer", lambda: b.operators.boundary.helmholtz.single_layer(dp0, dp0, dp0, 1j * w).weak_form().to_dense(), lambda: b.operators.boundary.modified_helmholtz.single_layer(dp0, dp0, dp0, w).weak_form().to_dense())):
                try:
                    A, C = a(), c()
                except Exception as ex_:
                    return {"gap": 1.0, "raised": "%s: %s: %s" % (nm, type(ex_).__name__, str(ex_)[:150]), "key": "dispatch/%s/raises" % nm}
                upd(nm, float(np.max(np.abs(A - C))), 0.0)
        finally:
            pass
    else:
        raise KeyError(family)
    return {"gap": worst if worst > 1e-9 else 0.0, "worst": worst, "case": det, "key": "%s/%s" % (family, det if worst > 1e-9 else "")}
