"""C11 - grid topology and geometry data are complete and consistent.

G1 shared-edge / shared-vertex detection and the adjacency rows for two elements with SYMBOLIC vertex ids
   (unbounded ints, distinct inside an element): every numbering is covered by path exploration;
G2 element-to-element vertex counts + the 1/2/3-vertex filter through the real code with a symbolic-index
   sparse model (N=2 quick, N=3 thorough);
G3 edge enumeration with symbolic vertex ids: every undirected edge once, element_edges consistent;
G4 geometric quantities of one symbolic triangle (unit right-handed normal, area, integration element,
   J^T J^-T = I, centroid, circumdiameter) - NRA with sqrt atoms;
G5 refine / barycentric refinement with symbolic vertex coordinates: children's cross vectors are 1/4 resp.
   1/6 of the parent's (area + orientation), children nested, domain indices repeated;
G6 (auxiliary, concrete) boundary flags, edge/vertex neighbours, union and grid_from_segments on the base
   meshes against a harness oracle."""
import itertools
import time
from fractions import Fraction as F
import numpy as np
import z3
from ..sym import SR, SI, SB, ABS, MODE, ZERO, Explorer, term, rv, Inconclusive
from ..npshim import SA, lift_arr, sym_array
from .. import world as W

LEVEL = "other"
EXPLANATION = (
    "Topology routines executed with symbolic (unbounded) vertex ids - path exploration covers every vertex numbering of <= 2 (3) elements - and "
    "geometry / refinement routines executed with symbolic vertex coordinates; claims decided by z3/cvc5 (LIA with uninterpreted ids, NRA with sqrt atoms)."
)
ROUNDS = ((("z3", 20), ("cvc5", 20)), (("z3", 120), ("cvc5", 120), ("z3nl", 120)), (("z3", 600), ("cvc5", 600)))


def sym_elements(N):
    vs = [[z3.Int("e%d_%d" % (j, i)) for i in range(3)] for j in range(N)]
    els = np.empty((3, N), dtype=object)
    for j in range(N):
        for i in range(3):
            els[i, j] = SI(vs[j][i])
    assume = [z3.Distinct(*vs[j]) for j in range(N)] + [v >= 0 for row in vs for v in row]
    return vs, els, assume


def shared(vs, a, c):
    return z3.Sum([z3.If(vs[a][i] == vs[c][j], 1, 0) for i in range(3) for j in range(3)])


class SymCount:
    """dense matrix with integer-term entries standing for a scipy sparse count matrix."""

    def __init__(self, a):
        self.a = a
        self.shape = a.shape

    @property
    def T(self):
        return SymCount(self.a.T)

    def dot(self, o):
        n, m = self.shape[0], o.shape[1]
        out = np.empty((n, m), dtype=object)
        for i in range(n):
            for j in range(m):
                out[i, j] = SI(z3.Sum([SI.term(self.a[i, k]) * SI.term(o.a[k, j]) for k in range(self.shape[1])]))
        return SymCount(out)

    def tocoo(self):
        rows, cols, data = [], [], []
        for i in range(self.shape[0]):
            for j in range(self.shape[1]):
                if self.a[i, j] != 0:  # forks
                    rows.append(i)
                    cols.append(j)
                    data.append(self.a[i, j])

        class C:
            pass

        c = C()
        c.row = np.array(rows, dtype=int)
        c.col = np.array(cols, dtype=int)
        c.data = np.array(data, dtype=object)
        return c


def run(ctx):
    import bempp_cl.api as b
    import bempp_cl.api.grid.grid as G
    import scipy.sparse as sps

    thorough = ctx.thorough
    ctx.bound("symbolic vertex ids", "2 elements (all numberings) quick; 3 elements thorough; ids are unbounded non-negative ints, distinct inside an element")
    ctx.bound("geometry", "one arbitrary non-degenerate triangle (9 symbolic coordinates); refinement on T2/T4 with symbolic coordinates")
    ctx.out("exhaustive sweep over sub-complexes with more than 3 symbolic-id elements (replaced by all numberings of <= 3 elements + base meshes)")
    ctx.out("vertex dtype conversions; floating-point rounding")
    ctx.stub("scipy.sparse.csr_matrix with symbolic indices -> dense count matrix of ITE sums (G2 only)")

    # ---------------- G1: shared entity detection, two elements
    t0 = time.time()
    vs, els, assume = sym_elements(2)
    for k, fn in ((2, G._get_shared_edge_information_for_two_elements), (1, G._get_shared_vertex_information_for_two_elements)):
        ex = Explorer(assume=assume + [shared(vs, 0, 1) == k], max_paths=400)
        res = ex.run(lambda: fn(els, 0, 1))
        ctx.paths += ex.paths
        pcs = []
        for pi, (pc, out, exc) in enumerate(res):
            pcf = z3.And(*pc) if pc else z3.BoolVal(True)
            pcs.append(pcf)
            if exc is not None:
                ctx.prove("G1/shared-%d/path%d/no-exception" % (k, pi), z3.BoolVal(False), assume + [shared(vs, 0, 1) == k, pcf], family="shared", params={"k": k}, abs_cons=False, group="G1-shared-%d" % k)
                continue
            if k == 2:
                a = [[int(out[r, c]) for c in range(2)] for r in range(2)]
                claim = z3.And(vs[0][a[0][0]] == vs[1][a[1][0]], vs[0][a[0][1]] == vs[1][a[1][1]], z3.BoolVal(a[0][0] != a[0][1] and a[1][0] != a[1][1] and a[1][0] < a[1][1]))
            else:
                i, j = int(out[0]), int(out[1])
                claim = vs[0][i] == vs[1][j]
            ctx.prove("G1/shared-%d/path%d" % (k, pi), claim, assume + [shared(vs, 0, 1) == k, pcf], family="shared", params={"k": k}, abs_cons=False, group="G1-shared-%d" % k)
        ctx.prove("G1/shared-%d/paths-cover" % k, z3.Or(pcs), assume + [shared(vs, 0, 1) == k], family="shared", params={"k": k}, abs_cons=False, group="G1-shared-%d" % k)
        ctx.expect_sat("G1/shared-%d/witness" % k, assume + [shared(vs, 0, 1) == k], abs_cons=False, group="G1-shared-%d" % k)
        ctx.sample({"G1": "shared-%d" % k, "paths": len(res)})
    # adjacency row layout
    ex = Explorer(assume=assume + [shared(vs, 0, 1) == 2], max_paths=400)
    res = ex.run(lambda: G._find_edge_adjacency(els, np.array([0, 1]), np.array([1, 0])))
    ctx.paths += ex.paths
    for pi, (pc, out, exc) in enumerate(res):
        if exc is not None:
            raise exc
        cl = []
        for col, (e0, e1) in enumerate(((0, 1), (1, 0))):
            r = [int(out[i, col]) for i in range(6)]
            cl += [z3.BoolVal(r[0] == e0 and r[1] == e1), vs[e0][r[2]] == vs[e1][r[4]], vs[e0][r[3]] == vs[e1][r[5]], z3.BoolVal(r[2] != r[3] and r[4] != r[5])]
        ctx.prove("G1/edge-adjacency-rows/path%d" % pi, z3.And(*cl), assume + [shared(vs, 0, 1) == 2] + list(pc), family="shared", params={"k": 2}, abs_cons=False, group="G1-adjacency-rows")
    ex = Explorer(assume=assume + [shared(vs, 0, 1) == 1], max_paths=400)
    res = ex.run(lambda: G._find_vertex_adjacency(els, np.array([0, 1]), np.array([1, 0])))
    ctx.paths += ex.paths
    for pi, (pc, out, exc) in enumerate(res):
        if exc is not None:
            raise exc
        cl = []
        for col, (e0, e1) in enumerate(((0, 1), (1, 0))):
            r = [int(out[i, col]) for i in range(4)]
            cl += [z3.BoolVal(r[0] == e0 and r[1] == e1), vs[e0][r[2]] == vs[e1][r[3]]]
        ctx.prove("G1/vertex-adjacency-rows/path%d" % pi, z3.And(*cl), assume + [shared(vs, 0, 1) == 1] + list(pc), family="shared", params={"k": 1}, abs_cons=False, group="G1-adjacency-rows")
    ctx.twin("twin/shared-edge-wrong-index", vs[0][0] == vs[1][0], assume + [shared(vs, 0, 1) == 2], abs_cons=False)
    ctx.encode_secs["G1"] = round(time.time() - t0, 2)

    # ---------------- G2: element-to-element counts with a symbolic-index sparse model
    t0 = time.time()
    real_csr = sps.csr_matrix

    def csr_matrix(arg, shape=None, dtype=None, **k):
        if isinstance(arg, tuple) and len(arg) == 2 and isinstance(arg[1], tuple):
            data, (ii, jj) = arg
            if any(isinstance(x, SI) for x in np.asarray(ii, dtype=object).ravel()):
                a = np.empty(shape, dtype=object)
                for r in range(shape[0]):
                    for c in range(shape[1]):
                        a[r, c] = SI(z3.Sum([z3.If(SI.term(i) == r, 1, 0) for i, j in zip(ii, jj) if int(j) == c] + [z3.IntVal(0)]))
                return SymCount(a)
        return real_csr(arg, shape=shape, dtype=dtype, **k)

    for N in (2, 3) if thorough else (2,):
        vsN, elsN, assumeN = sym_elements(N)
        Vn = 3 * N
        assumeN = assumeN + [v < Vn for row in vsN for v in row]
        verts = np.zeros((3, Vn))

        def runit():
            sps.csr_matrix = csr_matrix
            try:
                m = G.get_element_to_element_matrix(verts, elsN)
                e1, e2, nv = G._get_element_to_element_vertex_count(m)
            finally:
                sps.csr_matrix = real_csr
            pairs = {1: [], 2: [], 3: []}
            for a, c, n in zip(e1, e2, nv):
                for k in (1, 2, 3):
                    if n == k:
                        pairs[k].append((int(a), int(c)))
                        break
            return pairs

        ex = Explorer(assume=assumeN, max_paths=20000)
        res = ex.run(runit)
        ctx.paths += ex.paths
        pcs = []
        for pi, (pc, pairs, exc) in enumerate(res):
            if exc is not None:
                raise exc
            pcf = z3.And(*pc) if pc else z3.BoolVal(True)
            pcs.append(pcf)
            conds = []
            for a in range(N):
                for c in range(N):
                    for k in (1, 2, 3):
                        conds.append((shared(vsN, a, c) == k) == z3.BoolVal((a, c) in pairs[k]))
            if N == 2:
                ctx.prove("G2/N%d/path%d" % (N, pi), z3.And(*conds), assumeN + [pcf], family="e2e", params={"N": N}, abs_cons=False, group="G2-counts-N%d" % N)
            else:
                # one obligation per ordered element pair keeps the LIA queries small
                for j_ in range(0, len(conds), 3):
                    ctx.prove("G2/N%d/path%d/pair%d" % (N, pi, j_ // 3), z3.And(*conds[j_ : j_ + 3]), assumeN + [pcf], family="e2e", params={"N": N}, abs_cons=False, group="G2-counts-N%d" % N)
        if N == 2:
            ctx.prove("G2/N%d/paths-cover" % N, z3.Or(pcs), assumeN, family="e2e", params={"N": N}, abs_cons=False, group="G2-counts-N%d" % N)
        else:
            # the disjunction of several hundred path conditions is out of reach for the solvers; the explorer enumerates
            # every feasible branch (it raises when its path budget is exhausted), which is what the N = 2 cover obligation cross-checks
            ctx.assume("G2 with 3 elements: completeness of the path enumeration rests on the explorer's exhaustive DFS (cross-checked by the paths-cover obligations for 2 elements)")
        ctx.sample({"G2": "N=%d" % N, "paths": len(res)})
    ctx.encode_secs["G2"] = round(time.time() - t0, 2)

    # ---------------- G3: edge enumeration with symbolic ids
    t0 = time.time()
    for N in (2,):  # N=3 forks into > 10^4 paths (sorting comparisons): outside the bound
        vsN, elsN, assumeN = sym_elements(N)
        ex = Explorer(assume=assumeN, max_paths=20000)
        res = ex.run(lambda: G._numba_enumerate_edges(elsN, {}))
        ctx.paths += ex.paths
        pcs = []
        loc = [(0, 1), (2, 0), (1, 2)]
        for pi, (pc, out, exc) in enumerate(res):
            if exc is not None:
                raise exc
            pcf = z3.And(*pc) if pc else z3.BoolVal(True)
            pcs.append(pcf)
            edges, element_edges = out
            ne = edges.shape[1]
            et = [[SI.term(edges[r, c]) for r in range(2)] for c in range(ne)]
            cl = []
            for e in range(N):
                for l, (p, q) in enumerate(loc):
                    idx = int(element_edges[l, e])
                    cl.append(z3.BoolVal(0 <= idx < ne))
                    if 0 <= idx < ne:
                        lo = z3.If(vsN[e][p] < vsN[e][q], vsN[e][p], vsN[e][q])
                        hi = z3.If(vsN[e][p] < vsN[e][q], vsN[e][q], vsN[e][p])
                        cl += [et[idx][0] == lo, et[idx][1] == hi]
            for c1 in range(ne):
                for c2 in range(c1):
                    cl.append(z3.Or(et[c1][0] != et[c2][0], et[c1][1] != et[c2][1]))
            # every listed edge is used by some element
            used = {int(element_edges[l, e]) for e in range(N) for l in range(3)}
            cl.append(z3.BoolVal(used == set(range(ne))))
            ctx.prove("G3/N%d/path%d" % (N, pi), z3.And(*cl), assumeN + [pcf], family="edges", params={"N": N}, abs_cons=False, group="G3-edges-N%d" % N)
        ctx.prove("G3/N%d/paths-cover" % N, z3.Or(pcs), assumeN, family="edges", params={"N": N}, abs_cons=False, group="G3-edges-N%d" % N)
        ctx.sample({"G3": "N=%d" % N, "paths": len(res)})
    ctx.encode_secs["G3"] = round(time.time() - t0, 2)

    # ---------------- G4: geometry of one symbolic triangle
    t0 = time.time()
    MODE["div"] = "atoms"
    try:
        ABS.reset()
        g = W.symgrid("T1", tag="t", geometry="vertices")
        V = g._vertices
        a, bb, c = [[term(V[d, i]) for d in range(3)] for i in range(3)]
        u = [bb[d] - a[d] for d in range(3)]
        w = [c[d] - a[d] for d in range(3)]
        cr = [u[1] * w[2] - u[2] * w[1], u[2] * w[0] - u[0] * w[2], u[0] * w[1] - u[1] * w[0]]
        cr2 = cr[0] * cr[0] + cr[1] * cr[1] + cr[2] * cr[2]
        n = [term(g._normals[0, d]) for d in range(3)]
        vol, ie, diam = term(g._volumes[0]), term(g._integration_elements[0]), term(g._diameters[0])
        J = [[term(g._jacobians[0, d, k]) for k in range(2)] for d in range(3)]
        Jit = [[term(g._jacobian_inverse_transposed[0, d, k]) for k in range(2)] for d in range(3)]
        cen = [term(g._centroids[0, d]) for d in range(3)]
        dot = lambda p, q: p[0] * q[0] + p[1] * q[1] + p[2] * q[2]
        nondeg = [cr2 > 0]
        names = ABS.atoms_in([vol, ie, diam] + n + [x for r in Jit for x in r])
        hyps = nondeg + [s >= 0 for s in ABS.sqrt_args(names)]
        e2 = lambda p, q: sum((p[d] - q[d]) * (p[d] - q[d]) for d in range(3))
        claims = {
            "unit-normal": dot(n, n) == 1,
            "normal-orthogonal": z3.And(dot(n, u) == 0, dot(n, w) == 0),
            "right-handed": dot(n, cr) > 0,
            "volume": z3.And(vol >= 0, 4 * vol * vol == cr2),
            "integration-element": z3.And(ie >= 0, ie * ie == cr2),
            "jacobian-columns": z3.And(*[z3.And(J[d][0] == u[d], J[d][1] == w[d]) for d in range(3)]),
            "jac-inv-trans": z3.And(*[sum(J[d][i] * Jit[d][j] for d in range(3)) == (1 if i == j else 0) for i in range(2) for j in range(2)]),
            "centroid": z3.And(*[3 * cen[d] == a[d] + bb[d] + c[d] for d in range(3)]),
        }
        # circumdiameter = |a-b| |a-c| |b-c| / |u x w|, stated with the harness's own norms (sqrt atoms of the harness's
        # expressions; congruence identifies them with the atoms the real code created) so that the solver only needs
        # inv(r) * r = 1 instead of squaring a product of four irrational terms
        Vs = [[V[d, i] for d in range(3)] for i in range(3)]
        nrm = lambda p, q: sum(((p[d] - q[d]) * (p[d] - q[d]) for d in range(3)), ZERO).sqrt()
        us, ws = [Vs[1][d] - Vs[0][d] for d in range(3)], [Vs[2][d] - Vs[0][d] for d in range(3)]
        crs = [us[1] * ws[2] - us[2] * ws[1], us[2] * ws[0] - us[0] * ws[2], us[0] * ws[1] - us[1] * ws[0]]
        rcr = (crs[0] * crs[0] + crs[1] * crs[1] + crs[2] * crs[2]).sqrt()
        prod = nrm(Vs[0], Vs[1]) * nrm(Vs[0], Vs[2]) * nrm(Vs[1], Vs[2])
        claims["diameter"] = z3.And(diam >= 0, diam * term(rcr) == term(prod))
        names = ABS.atoms_in([vol, ie, diam, term(rcr), term(prod)] + n + [x for r in Jit for x in r])
        hyps = nondeg + [s >= 0 for s in ABS.sqrt_args(names)]
        for nm, cl in claims.items():
            ctx.prove("G4/%s" % nm, cl, hyps, family="geometry", params={"claim": nm}, abs_cons="cone", group="G4-geometry")
        ctx.expect_sat("G4/witness", hyps, abs_cons="cone", group="G4-geometry")
        ctx.twin("twin/left-handed-normal", dot(n, cr) < 0, hyps, abs_cons="cone")
        ctx.concrete("geometry", "geometry", {})
    finally:
        MODE["div"] = "rational"
    ctx.encode_secs["G4"] = round(time.time() - t0, 2)

    # ---------------- G5: refinement with symbolic coordinates
    t0 = time.time()
    for mesh in ("T2", "T4") if thorough else ("T2",):
        ABS.reset()
        MODE["div"] = "atoms"
        try:
            g = W.symgrid(mesh, tag="r" + mesh, geometry="vertices")
            for kind, nchild, frac in (("refine", 4, F(1, 4)), ("barycentric", 6, F(1, 6))):
                fine = g.refine() if kind == "refine" else g.barycentric_refinement
                FV = fine.vertices
                FE = fine.elements
                def crossv(Vx, E, el):
                    p = [[term(Vx[d, int(E[i, el])]) for d in range(3)] for i in range(3)]
                    uu = [p[1][d] - p[0][d] for d in range(3)]
                    ww = [p[2][d] - p[0][d] for d in range(3)]
                    return [uu[1] * ww[2] - uu[2] * ww[1], uu[2] * ww[0] - uu[0] * ww[2], uu[0] * ww[1] - uu[1] * ww[0]]
                ok_counts = fine.number_of_elements == nchild * g.number_of_elements and list(fine.domain_indices) == list(np.repeat(g.domain_indices, nchild))
                if not ok_counts:
                    ctx.violation("G5/%s/%s/counts" % (kind, mesh), "refinement", {"mesh": mesh, "kind": kind}, "element count or domain indices of the refined grid")
                for el in range(g.number_of_elements):
                    pc_ = crossv(g._vertices, g.elements, el)
                    cl = []
                    for ch in range(nchild):
                        cc = crossv(FV, FE, nchild * el + ch)
                        cl += [cc[d] == rv(frac) * pc_[d] for d in range(3)]
                    ctx.prove("G5/%s/%s/el%d" % (kind, mesh, el), z3.And(*cl), [], family="refinement", params={"mesh": mesh, "kind": kind}, abs_cons=False, group="G5-" + kind)
            ctx.concrete("refinement/" + mesh, "refinement", {"mesh": mesh})
        finally:
            MODE["div"] = "rational"
    ctx.encode_secs["G5"] = round(time.time() - t0, 2)

    # ---------------- G6: concrete consistency of derived tables on the base meshes (auxiliary, not solver-decided)
    naux = 0
    for mesh in ("T2", "T3", "T4", "T5", "T6", "T7", "T8", "T9"):
        v, e, d = W.mesh(mesh)
        bad = topo_oracle(b, np.asarray(v, dtype=float), np.asarray(e), d)
        naux += 1
        if bad:
            ctx.violation("G6/%s" % mesh, "tables", {"mesh": mesh}, "; ".join(bad)[:300])
    ctx.notes.append("G6 auxiliary concrete table checks on %d base meshes (not solver-decided)" % naux)
    ctx.concrete("tables", "tables", {"mesh": "T7"})


def topo_oracle(b, v, e, d):
    """independent recomputation of the derived topology tables of a concrete mesh; returns list of problems."""
    import bempp_cl.api.grid.grid as G

    g = b.Grid(v, e, np.asarray(d, dtype="uint32"))
    bad = []
    NE = e.shape[1]
    edges = {}
    for el in range(NE):
        for l, (p, q) in enumerate([(0, 1), (2, 0), (1, 2)]):
            key = tuple(sorted((int(e[p, el]), int(e[q, el]))))
            edges.setdefault(key, []).append((el, l))
    got_edges = [tuple(int(x) for x in g.edges[:, i]) for i in range(g.number_of_edges)]
    if sorted(got_edges) != sorted(edges) or len(set(got_edges)) != len(got_edges):
        bad.append("edge list")
    for key, uses in edges.items():
        for el, l in uses:
            if got_edges[int(g.element_edges[l, el])] != key:
                bad.append("element_edges[%d,%d]" % (l, el))
    for i, key in enumerate(got_edges):
        nb = sorted(el for el, _ in edges[key])
        if sorted(int(x) for x in g.edge_neighbors[i]) != nb:
            bad.append("edge_neighbors[%d]" % i)
        if bool(g.edge_on_boundary[i]) != (len(nb) == 1):
            bad.append("edge_on_boundary[%d]" % i)
    vb = set()
    for key, uses in edges.items():
        if len(uses) == 1:
            vb.update(key)
    for vtx in range(v.shape[1]):
        if bool(g.vertex_on_boundary[vtx]) != (vtx in vb):
            bad.append("vertex_on_boundary[%d]" % vtx)
    ea = {(int(c[0]), int(c[1])): [int(x) for x in c[2:]] for c in g.edge_adjacency.T}
    va = {(int(c[0]), int(c[1])): [int(x) for x in c[2:]] for c in g.vertex_adjacency.T}
    for a in range(NE):
        for c in range(NE):
            if a == c:
                continue
            sh = [(i, j) for i in range(3) for j in range(3) if e[i, a] == e[j, c]]
            if len(sh) == 2:
                if (a, c) not in ea:
                    bad.append("edge_adjacency misses (%d,%d)" % (a, c))
                else:
                    r = ea[(a, c)]
                    if sorted([(r[0], r[2]), (r[1], r[3])]) != sorted(sh):
                        bad.append("edge_adjacency indices (%d,%d)" % (a, c))
            elif (a, c) in ea:
                bad.append("edge_adjacency has spurious (%d,%d)" % (a, c))
            if len(sh) == 1:
                if (a, c) not in va or tuple(va[(a, c)]) != sh[0]:
                    bad.append("vertex_adjacency (%d,%d)" % (a, c))
            elif (a, c) in va:
                bad.append("vertex_adjacency has spurious (%d,%d)" % (a, c))
    # vertex neighbours / element neighbours
    for vtx in range(v.shape[1]):
        exp = sorted(el for el in range(NE) if vtx in e[:, el])
        vn = g.vertex_neighbors
        got = sorted(int(x) for x in vn.indices[vn.indexptr[vtx] : vn.indexptr[vtx + 1]])
        if got != exp:
            bad.append("vertex_neighbors[%d]" % vtx)
    for a in range(NE):
        exp = sorted(c for c in range(NE) if set(e[:, a]) & set(e[:, c]))
        en = g.element_neighbors
        got = sorted(int(x) for x in en.indices[en.indexptr[a] : en.indexptr[a + 1]])
        if got != exp:
            bad.append("element_neighbors[%d]" % a)
    # union and segments
    segs = sorted(set(d))
    if len(segs) > 1:
        sub = G.grid_from_segments(g, [segs[-1]])
        keep = [el for el in range(NE) if d[el] == segs[-1]]
        if sub.number_of_elements != len(keep) or any(int(x) != segs[-1] for x in sub.domain_indices):
            bad.append("grid_from_segments count/indices")
        else:
            for k, el in enumerate(keep):
                if not np.allclose(sub.vertices[:, sub.elements[:, k]], v[:, e[:, el]]):
                    bad.append("grid_from_segments element %d" % el)
    u = G.union([g, g], normalize_domain_indices=True)
    if u.number_of_elements != 2 * NE or not np.array_equal(u.elements[:, NE:], e + v.shape[1]) or not np.allclose(u.vertices[:, v.shape[1]:], v):
        bad.append("union offsets")
    nd = len(segs)
    di = [int(x) for x in u.domain_indices]
    rank = {s: i for i, s in enumerate(segs)}
    if di != [rank[x] for x in d] + [nd + rank[x] for x in d]:
        bad.append("union domain indices %s" % di)
    # three and four grids (documented: unique indices 0..N-1 with N the total number of domains, grid by grid)
    d2 = [3 * int(x) + 2 for x in d]  # non-contiguous labels
    g2 = b.Grid(v + 5.0, e, np.asarray(d2, dtype="uint32"))
    for grids, labels in (([g, g2, g], [list(d), d2, list(d)]), ([g2, g, g, g2], [d2, list(d), list(d), d2])):
        un = G.union(grids)
        exp = []
        off = 0
        for lab in labels:
            rk = {s_: i for i, s_ in enumerate(sorted(set(lab)))}
            exp += [off + rk[x] for x in lab]
            off += len(rk)
        if [int(x) for x in un.domain_indices] != exp:
            bad.append("union of %d grids: domain indices %s, expected %s" % (len(grids), [int(x) for x in un.domain_indices], exp))
        voff = 0
        eoff = 0
        for gr in grids:
            if not np.array_equal(un.elements[:, eoff : eoff + gr.number_of_elements], gr.elements + voff):
                bad.append("union of %d grids: element offsets" % len(grids))
            voff += gr.number_of_vertices
            eoff += gr.number_of_elements
    un = G.union([g, g2], normalize_domain_indices=False)
    if len(set(int(x) for x in un.domain_indices[:NE]) & set(int(x) for x in un.domain_indices[NE:])):
        bad.append("union(normalize_domain_indices=False) merged domains of different grids")
    return bad


def concrete(family, params):
    import bempp_cl.api as b

    if family in ("tables", "shared", "e2e", "edges"):
        worst = []
        for mesh in ("T2", "T3", "T4", "T5", "T6", "T7", "T8", "T9"):
            v, e, d = W.mesh(mesh)
            v, e = np.asarray(v, dtype=float), np.asarray(e)
            # also every local rotation / reflection of every element (numberings)
            rng = np.random.RandomState(5)
            for trial in range(6):
                e2 = e.copy()
                for el in range(e.shape[1]):
                    e2[:, el] = e[list(itertools.permutations(range(3)))[rng.randint(6)], el]
                perm = rng.permutation(v.shape[1])
                inv = np.argsort(perm)
                worst += ["%s: %s" % (mesh, x) for x in topo_oracle(b, v[:, perm], inv[e2], d)]
        return {"gap": 1.0 if worst else 0.0, "problems": worst[:10], "key": "tables/%s" % (worst[0].split(":")[1].split("[")[0].strip() if worst else "")}
    if family == "geometry":
        rng = np.random.RandomState(1)
        worst = 0.0
        for t in range(5):
            v = rng.rand(3, 3) * 2
            g = b.Grid(v, np.array([[0], [1], [2]]))
            u, w = v[:, 1] - v[:, 0], v[:, 2] - v[:, 0]
            cr = np.cross(u, w)
            n = g.normals[0]
            ea, eb, ec = np.linalg.norm(u), np.linalg.norm(w), np.linalg.norm(v[:, 1] - v[:, 2])
            errs = [abs(n @ n - 1), abs(n @ u), abs(n @ w), max(0, -(n @ cr)), abs(2 * g.volumes[0] - np.linalg.norm(cr)), abs(g.integration_elements[0] - np.linalg.norm(cr)),
                    np.max(np.abs(g.jacobians[0].T @ g.jacobian_inverse_transposed[0] - np.eye(2))), np.max(np.abs(g.centroids[0] - v.mean(axis=1))), abs(g.diameters[0] - ea * eb * ec / np.linalg.norm(cr))]
            worst = max(worst, max(errs))
        return {"gap": worst if worst > 1e-10 else 0.0, "key": "geometry"}
    if family == "refinement":
        v, e, d = W.mesh(params["mesh"])
        g = b.Grid(np.asarray(v, dtype=float), np.asarray(e), np.asarray(d, dtype="uint32"))
        worst = 0.0
        for fine, nchild, frac in ((g.refine(), 4, 0.25), (g.barycentric_refinement, 6, 1 / 6.0)):
            if fine.number_of_elements != nchild * g.number_of_elements or list(fine.domain_indices) != list(np.repeat(g.domain_indices, nchild)):
                return {"gap": 1.0, "key": "refinement/counts"}
            for el in range(g.number_of_elements):
                pc = g.normals[el] * g.volumes[el]
                for ch in range(nchild):
                    cc = fine.normals[nchild * el + ch] * fine.volumes[nchild * el + ch]
                    worst = max(worst, float(np.max(np.abs(cc - frac * pc))))
        return {"gap": worst if worst > 1e-10 else 0.0, "key": "refinement/%s" % params.get("kind", "")}
    raise KeyError(family)
