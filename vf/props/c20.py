"""C20 - OpenCL and Numba backends define the same kernels and shape functions.

The OpenCL side is regenerated on every run: clang-14 compiles the *current* headers to LLVM IR (both
precisions) and vf/llir.py executes every kernel variant symbolically; the Numba side is the current
numba_kernels.py / fmm/helpers.py / shapesets.py executed on the same symbolic inputs.  Pairing is read
from the two selection tables by AST.  One obligation per output lane and control-flow path."""
import ast
import math
import os
import re
import shutil
import time
from fractions import Fraction as F
import numpy as np
import z3
from .. import llir
from ..sym import SR, SC, ABS, MODE, Explorer, term, cterm, rv, Inconclusive
from ..npshim import lift_arr

LEVEL = "translation_validation"
EXPLANATION = (
    "Per-lane equivalence of every OpenCL kernel variant (LLVM IR from clang on the current headers, 2 precisions x novec/vec4/vec8/vec16) "
    "with the Numba kernel its selection-table name is paired with, for all points, normals and wavenumbers over the reals "
    "(sqrt/exp/cos/sin as uninterpreted atoms with sound lemmas + congruence); shapeset headers vs shapesets.py at a symbolic local point."
)
ROUNDS = ((("z3", 10), ("cvc5", 10)), (("z3", 60), ("cvc5", 60), ("z3nl", 60)), (("z3", 240), ("cvc5", 240)))
REPO = os.environ.get("VF_REPO", "/repo")
M_INV_4PI = 0.07957747154594767
HAND_PAIRS = {"helmholtz_gradient": "fmm.helpers.helmholtz_kernel"}


def read_tables():
    """(opencl name -> numba function name) from the two selection tables, by AST."""
    def dict_of(path, func, var):
        tree = ast.parse(open(path).read())
        for node in ast.walk(tree):
            if isinstance(node, ast.FunctionDef) and node.name == func:
                for st in ast.walk(node):
                    if isinstance(st, ast.Assign) and isinstance(st.targets[0], ast.Name) and st.targets[0].id == var and isinstance(st.value, ast.Dict):
                        out = {}
                        for k, v in zip(st.value.keys, st.value.values):
                            out[k.value] = v.value if isinstance(v, ast.Constant) else v.id
                        return out
        raise Inconclusive("table %s.%s not found" % (func, var))

    cl = dict_of(os.path.join(REPO, "bempp_cl/core/opencl_kernels.py"), "select_cl_kernel", "kernels")
    nb = dict_of(os.path.join(REPO, "bempp_cl/core/numba_kernels.py"), "select_numba_kernels", "kernel_functions_regular")
    pairs = {}
    unpaired = []
    for key, clname in cl.items():
        if key in nb:
            pairs[clname] = nb[key]
        else:
            unpaired.append(key)
    return pairs, unpaired


def constmap_for(precision, notes):
    """single precision: literals that are the float rounding of k*M_INV_4PI are mapped to k times the
    double literal used by the Numba side (that they approximate 1/(4 pi) is a separate obligation)."""
    if precision == 1:
        return lambda v: None

    def f(v):
        if v == 0:
            return None
        fr = F(v)
        if fr.denominator <= 2**12:
            return None  # exactly representable small dyadic (1, -1, 0.5, 3 ...)
        for k in (1, -1, 2, -2, F(1, 2), F(-1, 2), 4, -4):
            target = float(k) * M_INV_4PI
            if abs(v - target) <= abs(target) * 2.0**-22:
                notes.add("float literal %r read as %s*M_INV_4PI" % (v, k))
                return rv(F(k) * F(M_INV_4PI))
        raise Inconclusive("unrecognised single-precision literal %r in OpenCL IR" % v)

    return f


def R(n):
    return z3.Real(n)


def sa(vals):
    return lift_arr(np.array([[SR(v) for v in row] for row in vals], dtype=object)) if isinstance(vals[0], list) else lift_arr(np.array([SR(v) for v in vals], dtype=object))


def run(ctx):
    MODE["div"] = "atoms"
    import bempp_cl.core.numba_kernels as nk
    import bempp_cl.api.fmm.helpers as fh
    import bempp_cl.api.space.shapesets as shp
    from .. import hook

    thorough = ctx.thorough
    pairs, unpaired = read_tables()
    ctx.sample({"pairing_from_tables": pairs})
    if unpaired:
        ctx.inconclusive.append("OpenCL table keys without Numba partner: %s" % unpaired)
    outdir = os.path.join(os.path.dirname(os.path.dirname(os.path.dirname(os.path.abspath(__file__)))), "scratch", "c20-%d" % os.getpid())
    precisions = tuple(int(w) for w in os.environ.get("VF_C20_PREC", "1,0").split(","))
    widths = tuple(int(w) for w in os.environ.get("VF_C20_WIDTHS", "1,4,8,16").split(","))
    ctx.bound("functions", "every *_novec/_vec4/_vec8/_vec16 function in kernels.h + 4 shapeset headers, PRECISION 0 and 1")
    ctx.bound("inputs", "all real points, normals, wavenumber parts; test and trial point distinct (sqrt arguments > 0)")
    ctx.out("floating-point rounding of the OpenCL built-ins and of float32 arithmetic (reals)")
    ctx.out("the .cl assembly kernels under sources/kernels/ (loops over work-items; not in the property)")
    ctx.stub("OpenCL built-ins sqrt/rsqrt/exp/cos/sin/length/distance/dot -> same abstraction vocabulary as NumPy's on the Numba side")
    notes = set()
    t_enc = time.time()
    nfun = 0
    try:
        for prec in precisions:
            ll = llir.compile_headers(REPO, prec, outdir)
            fns = llir.parse(ll)
            kernel_fns = {n: f for n, f in fns.items() if re.search(r"_(novec|vec4|vec8|vec16)$", n) and not n.startswith("diff_vec")}
            bases = sorted({re.sub(r"_(novec|vec4|vec8|vec16)$", "", n) for n in kernel_fns})
            for base in bases:
                if base in pairs:
                    nbname = pairs[base]
                    nbf = getattr(nk, nbname)
                    mode = "kernel"
                elif base in HAND_PAIRS:
                    nbname = HAND_PAIRS[base]
                    nbf = fh.helmholtz_kernel
                    mode = "gradient"
                else:
                    ctx.inconclusive.append("OpenCL kernel %s has no partner in the selection tables" % base)
                    continue
                for width in widths:
                    suffix = "novec" if width == 1 else "vec%d" % width
                    fn = kernel_fns.get(base + "_" + suffix)
                    if fn is None:
                        ctx.inconclusive.append("missing variant %s_%s" % (base, suffix))
                        continue
                    nfun += 1
                    ABS.reset()
                    D = llir.SymDomain(ABS, constmap_for(prec, notes))
                    x = [R("x%d" % i) for i in range(3)]
                    nx = [R("nx%d" % i) for i in range(3)]
                    ys = [[R("y%d_%d" % (l, i)) for i in range(3)] for l in range(width)]
                    nys = [[R("ny%d_%d" % (l, i)) for i in range(3)] for l in range(width)]
                    kp = [R("k0"), R("k1")]
                    nout = 6 if mode == "gradient" else 2
                    if width == 1:
                        out = llir.Mem(nout)
                        args = [x, ys[0], nx, nys[0], llir.Mem(2, kp), out]
                    else:
                        out = llir.Mem(nout * width)
                        Y = llir.Mem(0, [ys[l][i] for i in range(3) for l in range(width)])
                        NY = llir.Mem(0, [nys[l][i] for i in range(3) for l in range(width)])
                        args = [x, Y, nx, NY, llir.Mem(2, kp), out]
                    paths = llir.run(fn, args, D)
                    outname = fn.params[5][1]
                    for ip, (pc, mems) in enumerate(paths):
                        outc = mems[outname].cells
                        for l in range(width):
                            # Numba side for this lane, explored under the IR path condition
                            def call():
                                if mode == "kernel":
                                    return nbf(sa(x), sa([[ys[l][i]] for i in range(3)]), sa(nx), sa([[nys[l][i]] for i in range(3)]), sa(kp))
                                return nbf(sa([[x[i]] for i in range(3)]), sa([[ys[l][i]] for i in range(3)]), sa(kp), np.dtype("float64"), np.dtype("complex128"))

                            ex = Explorer(assume=list(pc), max_paths=16)
                            res = ex.run(call)
                            ctx.paths += ex.paths
                            for pcn, r, exc in res:
                                if exc is not None:
                                    raise exc
                                if mode == "kernel":
                                    v = r[0]
                                    if isinstance(v, SC) or base.startswith("helmholtz"):
                                        er, ei = cterm(v)
                                        got = (outc[0], outc[1]) if width == 1 else (outc[l], outc[width + l])
                                        claim = z3.And(got[0] == er, got[1] == ei)
                                    else:
                                        claim = outc[l] == term(v)
                                else:
                                    cl_ = []
                                    for i in range(3):
                                        er, ei = cterm(r[1 + i])
                                        if width == 1:
                                            g = (outc[2 * i], outc[2 * i + 1])
                                        else:
                                            g = (outc[(2 * i) * width + l], outc[(2 * i + 1) * width + l])
                                        cl_ += [g[0] == er, g[1] == ei]
                                    claim = z3.And(*cl_)
                                hyps = list(pc) + list(pcn)
                                names = ABS.atoms_in(hyps + [claim])
                                hyps += [a > 0 for a in ABS.sqrt_args(names)]
                                nm = "%s/p%d/%s/lane%d/path%d.%d" % (base, prec, suffix, l, ip, len(pcn))
                                ob = ctx.prove(nm, claim, hyps, family="kernel", params={"cl": base, "nb": nbname, "precision": prec, "width": width, "lane": l, "mode": mode}, abs_cons="cone", group="%s/p%d" % (base, prec))
                                if base == "helmholtz_double_layer" and width == 1 and prec == 1 and ip == 0 and l == 0:
                                    ctx.expect_sat("witness/" + nm, hyps, abs_cons="cone", group="witness")
                                    # negative twin: the adjoint kernel is NOT the double layer kernel
                                    w = nk.helmholtz_adjoint_double_layer_regular(sa(x), sa([[ys[l][i]] for i in range(3)]), sa(nx), sa([[nys[l][i]] for i in range(3)]), sa([kp[0], 0]))[0] if False else None
                                    ctx.twin("twin/sign-flipped/" + nm, z3.And(outc[0] == -cterm(r[0])[0], outc[1] == cterm(r[0])[1]), hyps, abs_cons="cone")
            # shapesets
            ABS.reset()
            D = llir.SymDomain(ABS, constmap_for(prec, notes))
            u, v = R("u"), R("v")
            lp = sa([[u], [v]])
            for hname, ident, nres in (("p0_discontinuous_evaluate", "p0_discontinuous", 1), ("p1_discontinuous_evaluate", "p1_discontinuous", 3), ("rwg0_evaluate", "rwg0", 6), ("snc0_evaluate", "snc0", 6)):
                fn = fns.get(hname)
                if fn is None:
                    ctx.inconclusive.append("shapeset function %s missing" % hname)
                    continue
                nfun += 1
                out = llir.Mem(nres)
                paths = llir.run(fn, [llir.Mem(2, [u, v]), out], D)
                ref = shp.Shapeset(ident).evaluate(lp)  # (dim, nshape, npoints)
                for pc, mems in paths:
                    cells = mems[fn.params[1][1]].cells
                    claims = []
                    dim, ns = np.shape(ref)[0], np.shape(ref)[1]
                    for j in range(ns):
                        for d in range(dim):
                            idx = j * dim + d  # OpenCL layout: result[dim*j + d]
                            c = cells[idx]
                            claims.append(z3.BoolVal(False) if c is None else c == term(ref[d, j, 0]))
                    ctx.prove("shapeset/%s/p%d" % (ident, prec), z3.And(*claims), list(pc), family="shapeset", params={"ident": ident, "precision": prec}, abs_cons=False, group="shapeset")
            # literal constants
            consts = sorted(set(D.constants)) if prec == 0 else []
            ctx.sample({"precision": prec, "ir_functions": len(fns), "kernel_variants": len(kernel_fns)})
    finally:
        shutil.rmtree(outdir, ignore_errors=True)
    # the 1/(4 pi) literals: |c*4*pi - 1| <= eps for all pi in a certified interval
    pi = z3.Real("pi")
    piint = [pi > rv(F("3.14159265358979323846")), pi < rv(F("3.14159265358979323847"))]
    for nm, c, eps in (("numba.M_INV_4PI", nk.M_INV_4PI, F(1, 2**51)), ("opencl.double.M_INV_4PI", 0.07957747154594767, F(1, 2**51)), ("opencl.float.M_INV_4PI", float(np.float32(0.079577468)), F(1, 2**22))):
        e = rv(F(c)) * 4 * pi - 1
        ctx.prove("literal/%s" % nm, z3.And(e <= rv(eps), -e <= rv(eps)), piint, family="literal", params={"name": nm}, abs_cons=False, group="literal")
    ctx.twin("twin/literal-off-by-1e-6", z3.And(rv(F(M_INV_4PI) * (1 + F(1, 10**6))) * 4 * pi - 1 <= rv(F(1, 2**22))), piint, abs_cons=False)
    ctx.encode_secs["all"] = round(time.time() - t_enc, 2)
    ctx.notes += sorted(notes)
    ctx.bound("ir_functions_executed", nfun)
    # concrete validation of the IR interpreter + Numba JIT on seeded inputs
    for base in sorted(set(pairs) | set(HAND_PAIRS)):
        ctx.concrete("kernel/%s" % base, "kernel", {"cl": base, "nb": pairs.get(base, HAND_PAIRS.get(base)), "precision": 1, "width": 4, "mode": "gradient" if base in HAND_PAIRS else "kernel", "seed": ctx.seed})
    MODE["div"] = "rational"


# ----------------------------------------------------------------------------- concrete side
def concrete(family, params):
    import random
    import numpy as np

    here = os.path.dirname(os.path.dirname(os.path.dirname(os.path.abspath(__file__))))
    if family == "kernel":
        import bempp_cl.core.numba_kernels as nk
        import bempp_cl.api.fmm.helpers as fh

        prec = params.get("precision", 1)
        width = params.get("width", 1)
        outdir = os.path.join(here, "scratch", "c20c-%d" % os.getpid())
        try:
            fns = llir.parse(llir.compile_headers(REPO, prec, outdir))
        finally:
            shutil.rmtree(outdir, ignore_errors=True)
        base = params["cl"]
        mode = params.get("mode", "kernel")
        suffix = "novec" if width == 1 else "vec%d" % width
        fn = fns[base + "_" + suffix]
        rng = random.Random(params.get("seed", 0) + 17)
        worst = 0.0
        detail = None
        from ..run import model_float

        model = params.get("_model") or {}
        for trial in range(16):
            x = [rng.uniform(-1, 1) for _ in range(3)]
            nx = [rng.uniform(-1, 1) for _ in range(3)]
            ys = [[rng.uniform(-1, 1) + 2.5 for _ in range(3)] for _ in range(width)]
            nys = [[rng.uniform(-1, 1) for _ in range(3)] for _ in range(width)]
            kp = [rng.uniform(-3, 3), [0.0, rng.uniform(0.1, 2), -rng.uniform(0.1, 2), rng.uniform(-2, 2)][trial % 4]]
            if trial == 0 and model:
                # first trial: the solver's counterexample itself (inputs only; abstracted function values are recomputed)
                x = [model_float(model.get("x%d" % i), x[i]) for i in range(3)]
                nx = [model_float(model.get("nx%d" % i), nx[i]) for i in range(3)]
                ys = [[model_float(model.get("y%d_%d" % (l, i)), ys[l][i]) for i in range(3)] for l in range(width)]
                nys = [[model_float(model.get("ny%d_%d" % (l, i)), nys[l][i]) for i in range(3)] for l in range(width)]
                kp = [model_float(model.get("k0"), kp[0]), model_float(model.get("k1"), kp[1])]
                if any(sum((a - c) ** 2 for a, c in zip(x, yl)) < 1e-12 for yl in ys):
                    continue
            nout = 6 if mode == "gradient" else 2
            if width == 1:
                out = llir.Mem(nout, [0.0] * nout)
                args = [x, ys[0], nx, nys[0], llir.Mem(2, kp), out]
            else:
                out = llir.Mem(nout * width, [0.0] * (nout * width))
                args = [x, llir.Mem(0, [ys[l][i] for i in range(3) for l in range(width)]), nx, llir.Mem(0, [nys[l][i] for i in range(3) for l in range(width)]), llir.Mem(2, kp), out]
            (pc, mems), = llir.run(fn, args, llir.FloatDomain())
            outc = mems[fn.params[5][1]].cells
            Y = np.array(ys).T.copy()
            NY = np.array(nys).T.copy()
            if mode == "kernel":
                ref = getattr(nk, params["nb"])(np.array(x), Y, np.array(nx), NY, np.array(kp))
                for l in range(width):
                    if np.iscomplexobj(ref):
                        got = complex(outc[0], outc[1]) if width == 1 else complex(outc[l], outc[width + l])
                    else:
                        got = outc[l]
                    gap = abs(got - ref[l]) / max(abs(ref[l]), 1e-300)
                    if gap > worst:
                        worst, detail = gap, {"x": x, "y": ys[l], "nx": nx, "ny": nys[l], "k": kp, "opencl": str(got), "numba": str(ref[l])}
            else:
                ref = fh.helmholtz_kernel(np.array(x).reshape(3, 1), Y, np.array(kp), np.dtype(np.float64), np.dtype(np.complex128))
                for l in range(width):
                    for i in range(3):
                        got = complex(outc[2 * i], outc[2 * i + 1]) if width == 1 else complex(outc[(2 * i) * width + l], outc[(2 * i + 1) * width + l])
                        r = ref[4 * l + 1 + i]
                        gap = abs(got - r) / max(abs(r), 1e-300)
                        if gap > worst:
                            worst, detail = gap, {"x": x, "y": ys[l], "k": kp, "component": i, "opencl": str(got), "numba": str(r)}
        thr = 1e-9 if prec == 1 else 1e-5
        return {"gap": worst if worst > thr else 0.0, "worst_rel": worst, "detail": detail, "key": "kernel/%s" % base}
    if family == "shapeset":
        import bempp_cl.api.space.shapesets as shp

        prec = params.get("precision", 1)
        outdir = os.path.join(here, "scratch", "c20c-%d" % os.getpid())
        try:
            fns = llir.parse(llir.compile_headers(REPO, prec, outdir))
        finally:
            shutil.rmtree(outdir, ignore_errors=True)
        ident = params["ident"]
        fn = fns[ident + "_evaluate"]
        worst = 0.0
        for u, v in ((0.3, 0.2), (0.0, 1.0), (0.7, 0.1)):
            ref = shp.Shapeset(ident).evaluate(np.array([[u], [v]]))
            dim, ns = ref.shape[0], ref.shape[1]
            out = llir.Mem(dim * ns, [0.0] * (dim * ns))
            (pc, mems), = llir.run(fn, [llir.Mem(2, [u, v]), out], llir.FloatDomain())
            cells = mems[fn.params[1][1]].cells
            for j in range(ns):
                for d in range(dim):
                    worst = max(worst, abs(cells[j * dim + d] - ref[d, j, 0]))
        return {"gap": worst if worst > 1e-6 else 0.0, "key": "shapeset/%s" % ident}
    if family == "literal":
        import bempp_cl.core.numba_kernels as nk

        g = abs(nk.M_INV_4PI * 4 * math.pi - 1)
        return {"gap": g if g > 1e-15 else 0.0, "key": "literal"}
    raise KeyError(family)
