"""C08 - potentials and far fields: closed form, PDE, asymptotic phase law.

(A) kernels == textbook closed forms (independent formulas): Laplace / Helmholtz / modified Helmholtz single and
    double layer potential kernels and the two far-field kernels, for all points, normals and (complex) wavenumbers;
(B) exact PDE through second-order jets of the REAL kernel code with respect to the evaluation point:
    Laplace: lap K = 0; Helmholtz: (lap + k^2) K = 0; modified Helmholtz: (lap - w^2) K = 0 (single and double layer);
    Maxwell potential assemblers on one element / one quadrature point with arbitrary basis values:
    curl E = ik H, div H = 0, (lap + k^2) E = (lap + k^2) H = 0 componentwise.  (curl H = -ik E and div E = 0 hold
    only up to the quadrature error of a surface divergence theorem: finite-difference validated concretely.)
(C) potential assemblers through the public API with an uninterpreted Green's function, free geometry, symbolic
    points and symbolic real / complex densities: value == sum_e sum_q w_q ie_e f(y_q) K(x, y_q, n_e) written
    independently; Maxwell E/H potentials and far fields == their textbook sums;
(D) far field: K_ff(x^, y + t) == exp(-ik x^.t) K_ff(x^, y) for the real kernel code (trig-addition lemma
    instances) and the same law through the far-field operator for a translated grid."""
import time
from fractions import Fraction as F
import numpy as np
import z3
from ..sym import SR, SC, ABS, MODE, ZERO, ONE, Explorer, term, cterm, rv, eq_formula
from ..npshim import SA, lift_arr, sym_array
from .. import world as W
from .. import jets as JT
from ..jets import J, JC

LEVEL = "other"
EXPLANATION = (
    "Potential and far-field kernels of the real Numba source are proved equal to independently written closed forms and to satisfy their PDEs "
    "exactly (second-order jets of the real code, QF_NRA with abstracted sqrt/exp/cos/sin); the potential assemblers are executed through the public "
    "API with an uninterpreted kernel and proved equal to the textbook quadrature sums; the far-field translation law is proved with trig-addition lemma instances."
)
ROUNDS = ((("z3", 15), ("cvc5", 15)), (("z3", 90), ("cvc5", 90), ("z3nl", 90)), (("z3", 300), ("cvc5", 300)))


def R(n):
    return SR(z3.Real(n))


def vec(v):
    return lift_arr(np.array(list(v), dtype=object))


def col(v):
    return lift_arr(np.array([[c] for c in v], dtype=object))


def dot(a, b):
    return a[0] * b[0] + a[1] * b[1] + a[2] * b[2]


def textbook(name, x, y, n, kp, c4pi):
    """closed forms written from the mathematical definitions (not from the library)."""
    d = [x[i] - y[i] for i in range(3)]
    if name.startswith("far_field"):
        kr, ki = kp
        p = dot(x, y)
        e = (ki * p).exp() if ki is not None else ONE  # exp(-i(kr + i ki) p) = exp(ki p) (cos(kr p) - i sin(kr p))
        c, s = (kr * p).cos(), (kr * p).sin()
        g = SC(e * c * c4pi, -(e * s) * c4pi)
        if name == "far_field_single_layer":
            return g
        # d/dn_y: -ik (x.n) g
        xn = dot(x, n)
        mik = SC(ki if ki is not None else ZERO, -kr)  # -i (kr + i ki) = ki - i kr
        return g * mik * xn
    r = (d[0] * d[0] + d[1] * d[1] + d[2] * d[2]).sqrt()
    nd = dot(n, d)
    if name == "laplace_single_layer":
        return c4pi / r
    if name == "laplace_double_layer":
        return c4pi * nd / (r * r * r)
    if name == "modified_helmholtz_single_layer":
        (w,) = kp
        return c4pi * (-(w * r)).exp() / r
    if name == "modified_helmholtz_double_layer":
        (w,) = kp
        return c4pi * (-(w * r)).exp() * (ONE + w * r) * nd / (r * r * r)
    kr, ki = kp
    e = (-(ki * r)).exp() if ki is not None else ONE
    g = SC(e * (kr * r).cos() * c4pi / r, e * (kr * r).sin() * c4pi / r)
    if name == "helmholtz_single_layer":
        return g
    if name == "helmholtz_double_layer":
        # G (1 - ikr) n.d / r^2, ik r = i kr r - ki r
        one_m_ikr = SC(ONE + (ki * r if ki is not None else ZERO), -(kr * r))
        return g * one_m_ikr * (nd / (r * r))
    raise KeyError(name)


KERNELS = {
    "laplace_single_layer": ("laplace_single_layer_regular", 0),
    "laplace_double_layer": ("laplace_double_layer_regular", 0),
    "modified_helmholtz_single_layer": ("modified_helmholtz_single_layer_regular", 1),
    "modified_helmholtz_double_layer": ("modified_helmholtz_double_layer_regular", 1),
    "helmholtz_single_layer": ("helmholtz_single_layer_regular", 2),
    "helmholtz_double_layer": ("helmholtz_double_layer_regular", 2),
    "far_field_single_layer": ("helmholtz_far_field_single_layer", 2),
    "far_field_double_layer": ("helmholtz_far_field_double_layer", 2),
}


def run(ctx):
    import os
    import bempp_cl.api as b
    import bempp_cl.core.numba_kernels as nk

    JT.install()
    thorough = ctx.thorough
    ctx.bound("(A)(B)(D) kernels", "one evaluation point, one source point, all real coordinates, normals, wavenumbers (both branches of Im k != 0)")
    ctx.bound("(B) Maxwell", "one element, one quadrature point, arbitrary basis-function values / edge lengths / coefficients")
    ctx.bound("(C) assemblers", "meshes T2/T4 (T6 thorough) with free geometry, 1-2 evaluation points, regular order 1-2, P1/DP0/RWG spaces incl. segment spaces")
    ctx.out("the limit r -> infinity relating far field and potential (validated numerically at r = 1e5 in the concrete runs)")
    ctx.out("curl H = -ik E and div E = 0 (true up to quadrature error of the surface divergence theorem only; finite-difference validated concretely on a closed mesh)")
    ctx.assume("1/(4 pi) is the library constant M_INV_4PI (its value is compared with numpy's pi in the concrete runs)")
    c4pi = SR.lift(nk.M_INV_4PI)
    x = [R("x%d" % i) for i in range(3)]
    y = [R("y%d" % i) for i in range(3)]
    n = [R("n%d" % i) for i in range(3)]
    kr, ki, w = R("kr"), R("ki"), R("w")
    zero3 = vec([ZERO] * 3)

    def kparams(cnt):
        return {0: lift_arr(np.zeros(0)), 1: vec([w]), 2: vec([kr, ki])}[cnt]

    # ---------------- (A) closed forms
    t0 = time.time()
    MODE["div"] = "atoms"
    try:
        for name, (fname, cnt) in ([] if os.environ.get('VF_DEV_SKIP_AB') else KERNELS.items()):
            fn = getattr(nk, fname)
            ABS.reset()
            ex = Explorer(max_paths=8)
            res = ex.run(lambda: fn(vec(x), col(y), zero3, col(n), kparams(cnt))[0])
            ctx.paths += ex.paths
            for pi, (pc, out, exc) in enumerate(res):
                if exc is not None:
                    raise exc
                # on the path where the code saw Im k == 0 the closed form is evaluated with Im k = 0
                ki_here = ki
                if cnt == 2 and not name.startswith("far_field"):
                    zs = z3.Solver()
                    zs.add(*pc)
                    zs.add(term(ki) != 0)
                    if zs.check() == z3.unsat:
                        ki_here = None
                ref = textbook(name, x, y, n, {0: (), 1: (w,), 2: (kr, ki_here)}[cnt], c4pi)
                a_, c_ = cterm(out), cterm(ref)
                claim = z3.And(a_[0] == c_[0], a_[1] == c_[1])
                hyps = list(pc)
                names = ABS.atoms_in(hyps + [claim])
                hyps += [s_ > 0 for s_ in ABS.sqrt_args(names)]
                ctx.prove("A/%s/p%d" % (name, pi), claim, hyps, family="closed_form", params={"kernel": name}, abs_cons="cone", group="A-closed-form/" + name)
        ctx.twin("twin/laplace-dl-wrong-sign", term(nk.laplace_double_layer_regular(vec(x), col(y), zero3, col(n), kparams(0))[0]) == term(-textbook("laplace_double_layer", x, y, n, (), c4pi)), [], abs_cons="cone")
    finally:
        MODE["div"] = "rational"
    for name in KERNELS:
        ctx.concrete("closed_form/" + name, "closed_form", {"kernel": name, "real_k_only": name.startswith("far_field")})
    ctx.encode_secs["A"] = round(time.time() - t0, 2)

    # ---------------- (B) PDE via jets
    t0 = time.time()
    xj = lift_arr(np.array([J.var(x[i], i) for i in range(3)], dtype=object))
    for mode in ("atoms",):
        MODE["div"] = mode
        try:
            for name, (fname, cnt) in ([] if os.environ.get('VF_DEV_SKIP_AB') else KERNELS.items()):
                if name.startswith("far_field"):
                    continue
                fn = getattr(nk, fname)
                ABS.reset()
                ex = Explorer(max_paths=8)
                res = ex.run(lambda: fn(xj, col(y), zero3, col(n), kparams(cnt))[0])
                ctx.paths += ex.paths
                for pi, (pc, out, exc) in enumerate(res):
                    if exc is not None:
                        raise exc
                    re_, im_ = JT.parts(out)
                    if cnt == 0:
                        claim = z3.And(term(re_.lap()) == 0, term(im_.lap()) == 0)
                        wrong = term(re_.lap()) == term(re_.v)
                    elif cnt == 1:
                        claim = term(re_.lap()) == term(w * w * re_.v)
                        wrong = term(re_.lap()) == term(-(w * w * re_.v))
                    else:
                        a2, b2 = kr * kr - ki * ki, 2 * kr * ki
                        claim = z3.And(term(re_.lap() + a2 * re_.v - b2 * im_.v) == 0, term(im_.lap() + a2 * im_.v + b2 * re_.v) == 0)
                        wrong = z3.And(term(re_.lap() + a2 * re_.v + b2 * im_.v) == 0, term(im_.lap() + a2 * im_.v + b2 * re_.v) == 0)
                    hyps = list(pc)
                    names = ABS.atoms_in(hyps + [claim])
                    hyps += [s_ > 0 for s_ in ABS.sqrt_args(names)]
                    ctx.prove("B/pde/%s/p%d" % (name, pi), claim, hyps, family="pde", params={"kernel": name}, abs_cons="cone", group="B-pde")
                    if pi == 0 and name in ("laplace_single_layer", "modified_helmholtz_single_layer", "helmholtz_single_layer"):
                        ctx.twin("twin/pde-wrong/%s" % name, wrong, hyps, abs_cons="cone")
        finally:
            MODE["div"] = "rational"
    ctx.concrete("pde", "pde", {})
    ctx.encode_secs["B"] = round(time.time() - t0, 2)

    # ---------------- (B') Maxwell potentials: curl E = ik H, div H = 0, vector Helmholtz (jets through the real assemblers)
    t0 = time.time()
    from ..npshim import shim as snp

    MODE["div"] = os.environ.get("VF_DEV_MODE", "atoms")
    try:
        ABS.reset()
        g1 = W.symgrid("T1", tag="mx")
        gd = g1.data("double")
        basis = sym_array("bf", (1, 3, 3, 1))
        elen = sym_array("el", (1, 3))
        coef = sym_array("cf", (3,))
        qp = lift_arr(np.array([[R("q0")], [R("q1")]], dtype=object))
        qw = vec([R("qw")])
        pts = lift_arr(np.array([[J.var(x[i], i)] for i in range(3)], dtype=object))
        kpar = vec([kr, ki])
        sup = np.array([0])
        nm = np.array([1])
        with W.patched((nk, "get_piola_transform", lambda *a: basis), (nk, "get_edge_lengths", lambda *a: elen)):
            ex = Explorer(assume=[term(ki) != 0], max_paths=8)
            res = ex.run(lambda: (nk.maxwell_efield_potential(snp.float64, snp.complex128, 3, pts, coef, gd, qp, qw, 3, None, nk.helmholtz_single_layer_regular, kpar, nm, sup),
                                  nk.maxwell_mfield_potential(snp.float64, snp.complex128, 3, pts, coef, gd, qp, qw, 3, None, nk.helmholtz_single_layer_regular, kpar, nm, sup)))
            ctx.paths += ex.paths
        for pi, (pc, out, exc) in enumerate(res):
            if exc is not None:
                raise exc
            Ev, Hv = out
            E = [JT.parts(Ev[c, 0]) for c in range(3)]
            H = [JT.parts(Hv[c, 0]) for c in range(3)]
            hyps0 = [term(ki) != 0] + list(pc)

            def add(name, claims):
                claim = z3.And(*claims)
                names = ABS.atoms_in(hyps0 + [claim])
                hy = hyps0 + [s_ > 0 for s_ in ABS.sqrt_args(names)]
                ctx.prove("B/maxwell/%s/p%d" % (name, pi), claim, hy, family="maxwell_pde", params={"what": name}, abs_cons="cone", group="B-maxwell")
                return hy

            def curl(Fp, c, part):
                a, b_ = (c + 1) % 3, (c + 2) % 3
                return Fp[b_][part].g[a] - Fp[a][part].g[b_]

            # curl E = ik H, ik = -ki + i kr
            for c in range(3):
                cr, ci = curl(E, c, 0), curl(E, c, 1)
                hr, hi = H[c][0].v, H[c][1].v
                hy = add("curlE=ikH/%d" % c, [term(cr) == term(-(ki * hr) - kr * hi), term(ci) == term(kr * hr - ki * hi)])
                if c == 0 and pi == 0:
                    ctx.twin("twin/curlE=-ikH", z3.And(term(cr) == term(ki * hr + kr * hi), term(ci) == term(-(kr * hr) + ki * hi)), hy, abs_cons="cone")
            add("divH=0", [term(H[0][p].g[0] + H[1][p].g[1] + H[2][p].g[2]) == 0 for p in (0, 1)])
        # gradient of the Green's function the Maxwell assemblers hard-code: grad_x G == G (ikr - 1) (x - y) / r^2
        ABS.reset()
        ex = Explorer(assume=[term(ki) != 0], max_paths=4)
        res = ex.run(lambda: nk.helmholtz_single_layer_regular(xj, col(y), zero3, col(n), vec([kr, ki]))[0])
        for pi, (pc, out, exc) in enumerate(res):
            if exc is not None:
                raise exc
            re_, im_ = JT.parts(out)
            d = [x[i] - y[i] for i in range(3)]
            r = (d[0] * d[0] + d[1] * d[1] + d[2] * d[2]).sqrt()
            fac = SC(-(ki * r) - ONE, kr * r) * SC(re_.v, im_.v) / (r * r)  # (ikr - 1) G / r^2
            cl = []
            for c in range(3):
                want = fac * d[c]
                cl += [term(re_.g[c]) == term(want.re), term(im_.g[c]) == term(want.im)]
            claim = z3.And(*cl)
            hy = [term(ki) != 0] + list(pc)
            hy += [s_ > 0 for s_ in ABS.sqrt_args(ABS.atoms_in(hy + [claim]))]
            ctx.prove("B/maxwell/gradG/p%d" % pi, claim, hy, family="maxwell_pde", params={"what": "gradG"}, abs_cons="cone", group="B-maxwell")
    finally:
        MODE["div"] = "rational"
    ctx.concrete("maxwell_pde", "maxwell_pde", {})
    ctx.encode_secs["B-maxwell"] = round(time.time() - t0, 2)
    if os.environ.get("VF_DEV_ONLY_B"):
        return

    # ---------------- (C) potential assemblers through the public API == textbook quadrature sums
    t0 = time.time()
    import bempp_cl.api.integration.triangle_gauss as tg
    from .c13 import local_basis, peval, edge_lengths

    ctx.stub("(C): Green's function = uninterpreted function of (x, y, n_y); the Maxwell assemblers' hard-coded gradient factor (ikr - 1)/r^2 is tied to the real kernel by B/maxwell/gradG")
    P1 = [lambda u, v: ONE - u - v, lambda u, v: ONE * u, lambda u, v: ONE * v]
    scal = [
        # mesh, family, op, kernel, normals, complex kernel, k, space kind, degree, options, order, complex density, npoints
        ("T4", "laplace", "single_layer", "laplace_single_layer", "", False, None, "P", 1, {}, 2, True, 2),
        ("T6", "helmholtz", "double_layer", "helmholtz_double_layer", "y", True, 1.2 + 0.3j, "DP", 0, {"segments": [1], "swapped_normals": [1]}, 1, False, 1),
        ("T4", "modified_helmholtz", "double_layer", "modified_helmholtz_double_layer", "y", False, 0.8, "P", 1, {}, 1, True, 1),
    ]
    if thorough:
        scal += [("T6", "laplace", "double_layer", "laplace_double_layer", "y", False, None, "P", 1, {"segments": [0], "include_boundary_dofs": True}, 2, True, 2),
                 ("T7", "helmholtz", "single_layer", "helmholtz_single_layer", "", True, 0.7 - 0.2j, "DP", 1, {"segments": [1, 2]}, 2, True, 1)]
    for ci, (mesh, fam, opn, kname, normals, cplx, k, kind, deg, opts, order, cdens, npts) in enumerate(scal):
        ABS.reset()
        g = W.symgrid(mesh, tag="c%d" % ci)
        gd = g.data()
        W.set_orders(order, 1)
        uf = W.UFKernel("KC%d" % ci, normals=normals, complex_=cplx)
        args = () if k is None else (k,)
        pts = sym_array("p%d_" % ci, (3, npts))
        with W.patched(*W.install_uf([kname], uf)):
            sp = b.function_space(g, kind, deg, **opts)
            nd = sp.global_dof_count
            cre = sym_array("cr%d_" % ci, (nd,))
            cim = sym_array("ci%d_" % ci, (nd,))
            coeffs = lift_arr(np.array([SC(cre[j], cim[j]) for j in range(nd)], dtype=object)) if cdens else cre
            pot = getattr(getattr(b.operators.potential, fam), opn)(sp, pts, *args)
            got = pot.evaluate(b.GridFunction(sp, coefficients=coeffs))
        qp, qw = tg.rule(order)
        params = {"mesh": mesh, "family": fam, "op": opn, "kind": kind, "deg": deg, "opts": opts, "order": order, "complex_density": cdens}
        for pi_ in range(npts):
            xp = [pts[d_, pi_] for d_ in range(3)]
            acc = SC(ZERO, ZERO)
            for el in np.flatnonzero(sp.support):
                v = [gd.vertices[:, int(gd.elements[i, el])] for i in range(3)]
                nrm = [gd.normals[el][d_] * int(sp.normal_multipliers[el]) for d_ in range(3)]
                for q in range(len(qw)):
                    u_, v_ = qp[0, q], qp[1, q]
                    yq = [v[0][d_] + gd.jacobians[el][d_, 0] * u_ + gd.jacobians[el][d_, 1] * v_ for d_ in range(3)]  # the affine map v0 + J (u, v)
                    f = SC(ZERO, ZERO)
                    for i in range(sp.number_of_shape_functions):
                        phi = ONE if kind == "DP" and deg == 0 else P1[i](u_, v_)
                        f = f + coeffs[int(sp.local2global[el, i])] * (phi * sp.local_multipliers[el, i])
                    acc = acc + f * uf.val(xp, yq, None, nrm) * (qw[q] * gd.integration_elements[el])
            ctx.prove("C%d/%s/%s/pt%d" % (ci, fam, opn, pi_), eq_formula(got[0, pi_], acc), [], family="potential_sum", params=params, abs_cons=False, group="C-scalar")
            if ci == 0 and pi_ == 0:
                ctx.twin("twin/potential-sum-doubled", eq_formula(got[0, pi_], acc * 2), [], abs_cons=False)
        ctx.concrete("potential_sum/%d" % ci, "potential_sum", params)

    # Maxwell potentials and far fields with an uninterpreted Helmholtz kernel and a symbolic complex wavenumber
    K = SC(kr, ki)
    IK = SC(-ki, kr)
    mcfgs = [("T2", {"include_boundary_dofs": True}, 1)] + ([("T4", {}, 2)] if thorough else [])
    for ci, (mesh, opts, order) in enumerate(mcfgs):
        ABS.reset()
        g = W.symgrid(mesh, tag="m%d" % ci)
        gd = g.data()
        W.set_orders(order, 1)
        pts = sym_array("mp%d_" % ci, (3, 1))
        xp = [pts[d_, 0] for d_ in range(3)]
        ufm = W.UFKernel("KM%d" % ci, normals="", complex_=True)
        uff = W.UFKernel("KF%d" % ci, normals="", complex_=True)
        with W.patched(*W.install_uf(["helmholtz_single_layer"], ufm)), W.patched((nk, "helmholtz_far_field_single_layer", uff.regular())):
            sp = b.function_space(g, "RWG", 0, **opts)
            nd = sp.global_dof_count
            coeffs = lift_arr(np.array([SC(R("mcr%d_%d" % (ci, j)), R("mci%d_%d" % (ci, j))) for j in range(nd)], dtype=object))
            gf = b.GridFunction(sp, coefficients=coeffs)
            ex = Explorer(assume=[term(ki) != 0, term(kr) != 0], max_paths=16)
            res = ex.run(lambda: tuple(getattr(getattr(b.operators, grp).maxwell, nm_)(sp, pts, K).evaluate(gf) for grp, nm_ in (("potential", "electric_field"), ("potential", "magnetic_field"), ("far_field", "electric_field"), ("far_field", "magnetic_field"))))
            ctx.paths += ex.paths
        qp, qw = tg.rule(order)
        params = {"mesh": mesh, "opts": opts, "order": order}
        for pi, (pc, out, exc) in enumerate(res):
            if exc is not None:
                raise exc
            Eg, Hg, EFg, HFg = out
            E = [SC(ZERO, ZERO)] * 3
            H = [SC(ZERO, ZERO)] * 3
            EF = [SC(ZERO, ZERO)] * 3
            HF = [SC(ZERO, ZERO)] * 3
            for el in np.flatnonzero(sp.support):
                v = [gd.vertices[:, int(gd.elements[i, el])] for i in range(3)]
                lb = local_basis(sp, el)
                L = edge_lengths(gd, el)
                ie = gd.integration_elements[el]
                for q in range(len(qw)):
                    u_, v_ = qp[0, q], qp[1, q]
                    yq = [v[0][d_] + gd.jacobians[el][d_, 0] * u_ + gd.jacobians[el][d_, 1] * v_ for d_ in range(3)]  # the affine map v0 + J (u, v)
                    fq = [SC(ZERO, ZERO)] * 3
                    dv = SC(ZERO, ZERO)
                    for i in range(3):
                        cj = coeffs[int(sp.local2global[el, i])]
                        for d_ in range(3):
                            fq[d_] = fq[d_] + cj * peval(lb[i][d_], u_, v_)
                        dv = dv + cj * (2 * L[i] * sp.local_multipliers[el, i] / ie)
                    wq = qw[q] * ie
                    G = ufm.val(xp, yq, None, None)
                    GF = uff.val(xp, yq, None, None)
                    dd = [xp[d_] - yq[d_] for d_ in range(3)]
                    r = (dd[0] * dd[0] + dd[1] * dd[1] + dd[2] * dd[2]).sqrt()
                    gradfac = (IK * r - ONE) / (r * r)  # grad_x G = G (ikr - 1) (x - y) / r^2
                    gG = [G * gradfac * dd[d_] for d_ in range(3)]
                    for d_ in range(3):
                        # E = ik int G f - (1/ik) grad int G div f ; E_far = ik int G_far f - x^ int G_far div f
                        E[d_] = E[d_] + (IK * G * fq[d_] - gG[d_] * dv / IK) * wq
                        EF[d_] = EF[d_] + (IK * GF * fq[d_] - GF * dv * xp[d_]) * wq
                    # H = curl int G f = int grad G x f ; H_far = ik x^ x int G_far f
                    for d_ in range(3):
                        a, c_ = (d_ + 1) % 3, (d_ + 2) % 3
                        H[d_] = H[d_] + (gG[a] * fq[c_] - gG[c_] * fq[a]) * wq
                        HF[d_] = HF[d_] + (IK * GF * (fq[c_] * xp[a] - fq[a] * xp[c_])) * wq
            for nm_, got_, want in (("E", Eg, E), ("H", Hg, H), ("Efar", EFg, EF), ("Hfar", HFg, HF)):
                cl = [eq_formula(got_[d_, 0], want[d_]) for d_ in range(3)]
                hy = [term(ki) != 0, term(kr) != 0] + list(pc)
                claim = z3.And(*cl)
                hy += [s_ > 0 for s_ in ABS.sqrt_args(ABS.atoms_in(hy + [claim]))]
                ctx.prove("C/maxwell%d/%s/p%d" % (ci, nm_, pi), claim, hy, family="maxwell_sum", params=dict(params, field=nm_), abs_cons="cone", group="C-maxwell")
        ctx.concrete("maxwell_sum/%d" % ci, "maxwell_sum", params)
    ctx.encode_secs["C"] = round(time.time() - t0, 2)

    # ---------------- (D) far-field translation law (real wavenumber; complex wavenumbers are decided by A/far_field_*)
    t0 = time.time()
    MODE["div"] = "atoms"
    try:
        tt = [R("t%d" % i) for i in range(3)]
        for name in ("far_field_single_layer", "far_field_double_layer"):
            fn = getattr(nk, KERNELS[name][0])
            ABS.reset()
            kp = vec([kr, ZERO])
            a0 = fn(vec(x), col(y), zero3, col(n), kp)[0]
            a1 = fn(vec(x), col([y[i] + tt[i] for i in range(3)]), zero3, col(n), kp)[0]
            Aarg, Barg = -(kr * dot(x, y)), -(kr * dot(x, tt))
            cA, sA, cB, sB = Aarg.cos(), Aarg.sin(), Barg.cos(), Barg.sin()
            cAB, sAB = (Aarg + Barg).cos(), (Aarg + Barg).sin()
            lem = [term(cAB) == term(cA * cB - sA * sB), term(sAB) == term(sA * cB + cA * sB)]  # angle-addition instances
            phase = SC(cB, sB)  # exp(-i kr x^.t)
            want = SC.lift(a0) * phase
            a_, c_ = cterm(a1), cterm(want)
            ctx.prove("D/translation/%s" % name, z3.And(a_[0] == c_[0], a_[1] == c_[1]), lem, family="ff_translation", params={"kernel": name}, abs_cons="cone", group="D-translation")
        ctx.twin("twin/ff-translation-wrong-phase", z3.And(*[p_ == q_ for p_, q_ in zip(cterm(a1), cterm(SC.lift(a0) * SC(cB, -sB)))]), lem, abs_cons="cone")
    finally:
        MODE["div"] = "rational"
    ctx.assume("(D): cos(A+B) = cos A cos B - sin A sin B and sin(A+B) = sin A cos B + cos A sin B are supplied as hypotheses for the two arguments that occur")
    ctx.concrete("ff_translation", "ff_translation", {})
    ctx.concrete("ff_limit", "ff_limit", {})
    ctx.concrete("fd_maxwell", "fd_maxwell", {})
    ctx.encode_secs["D"] = round(time.time() - t0, 2)


# ----------------------------------------------------------------------------- concrete side (JIT)
def _np_textbook(name, x, y, n, k):
    d = x - y
    r = np.linalg.norm(d)
    c = 1.0 / (4 * np.pi)
    if name == "laplace_single_layer":
        return c / r
    if name == "laplace_double_layer":
        return c * n.dot(d) / r**3
    if name == "modified_helmholtz_single_layer":
        return c * np.exp(-k * r) / r
    if name == "modified_helmholtz_double_layer":
        return c * np.exp(-k * r) * (1 + k * r) * n.dot(d) / r**3
    if name == "helmholtz_single_layer":
        return c * np.exp(1j * k * r) / r
    if name == "helmholtz_double_layer":
        return c * np.exp(1j * k * r) / r * (1 - 1j * k * r) * n.dot(d) / r**2
    if name == "far_field_single_layer":
        return c * np.exp(-1j * k * x.dot(y))
    if name == "far_field_double_layer":
        return -1j * k * x.dot(n) * c * np.exp(-1j * k * x.dot(y))
    raise KeyError(name)


def concrete(family, params):
    import bempp_cl.api as b
    import bempp_cl.core.numba_kernels as nk
    from ..run import model_float

    rng = np.random.RandomState(11)
    if family == "closed_form":
        name = params["kernel"]
        fname, cnt = KERNELS[name]
        fn = getattr(nk, fname)
        m = params.get("_model") or {}
        cases = []
        if m:
            g_ = lambda nm, dflt: model_float(m.get(nm), dflt)
            cases.append((np.array([g_("x%d" % i, 0.3 * i) for i in range(3)]), np.array([g_("y%d" % i, 1.0 + i) for i in range(3)]), np.array([g_("n%d" % i, 0.5) for i in range(3)]), g_("kr", 1.0), g_("ki", 0.5), g_("w", 0.7)))
        for t_ in range(8):
            cases.append((rng.rand(3), rng.rand(3) + 1.2, rng.rand(3) - 0.5, 0.5 + 2 * rng.rand(), [0.0, 0.6, -0.4, 0.0][t_ % 4] if not params.get("real_k_only") else 0.0, 0.3 + rng.rand()))
        worst, det = 0.0, ""
        for x, y, n, kr, ki, w in cases:
            if params.get("real_k_only"):
                ki = 0.0
            kp = {0: np.zeros(0), 1: np.array([w]), 2: np.array([kr, ki])}[cnt]
            k = {0: None, 1: w, 2: kr + 1j * ki}[cnt]
            got = fn(x, y.reshape(3, 1), np.zeros(3), n.reshape(3, 1), kp)[0]
            ref = _np_textbook(name, x, y, n, k)
            gap = abs(got - ref) / max(abs(ref), 1e-300)
            if gap > worst:
                worst, det = gap, ("complex-k" if cnt == 2 and ki != 0 else "real")
        # does it fail for real wavenumbers too?
        return {"gap": worst if worst > 1e-9 else 0.0, "rel_err": worst, "key": "closed_form/%s/%s" % (name, det if worst > 1e-9 else "")}
    if family == "pde" or family == "maxwell_pde":
        # finite-difference validation of the jets: Laplacian of the JIT kernels by central differences
        worst = 0.0
        h = 1e-3
        for name, (fname, cnt) in KERNELS.items():
            if name.startswith("far_field"):
                continue
            fn = getattr(nk, fname)
            x, y, n = np.array([0.3, 0.2, 0.1]), np.array([1.4, 1.1, 0.9]), np.array([0.2, -0.5, 0.7])
            kp = {0: np.zeros(0), 1: np.array([0.7]), 2: np.array([1.3, 0.4])}[cnt]
            f = lambda p: fn(p, y.reshape(3, 1), np.zeros(3), n.reshape(3, 1), kp)[0]
            lap = sum((f(x + h * e) - 2 * f(x) + f(x - h * e)) / h**2 for e in np.eye(3))
            k2 = {0: 0.0, 1: -(0.7**2), 2: (1.3 + 0.4j) ** 2}[cnt]
            res = abs(lap + k2 * f(x)) / abs(f(x))
            worst = max(worst, res)
        return {"gap": worst if worst > 1e-4 else 0.0, "fd_residual": worst, "key": family}
    if family == "potential_sum":
        v, e, d = W.mesh(params["mesh"])
        g = b.Grid(np.asarray(v, dtype=float), np.asarray(e), np.asarray(d, dtype="uint32"))
        b.GLOBAL_PARAMETERS.quadrature.regular = params["order"]
        sp = b.function_space(g, params["kind"], params["deg"], **params["opts"])
        k = {"laplace": None, "helmholtz": 1.2 + 0.3j, "modified_helmholtz": 0.8}[params["family"]]
        args = () if k is None else (k,)
        pts = np.array([[2.0, -1.5], [0.3, 0.8], [0.1, 1.9]])
        c = rng.rand(sp.global_dof_count) + (1j * rng.rand(sp.global_dof_count) if params["complex_density"] else 0)
        got = getattr(getattr(b.operators.potential, params["family"]), params["op"])(sp, pts, *args).evaluate(b.GridFunction(sp, coefficients=c))
        import bempp_cl.api.integration.triangle_gauss as tg

        qp, qw = tg.rule(params["order"])
        name = "%s_%s" % (params["family"], params["op"])
        ref = np.zeros(2, dtype=complex)
        for el in np.flatnonzero(sp.support):
            vv = g.vertices[:, g.elements[:, el]]
            for q in range(len(qw)):
                yq = vv[:, 0] + (vv[:, 1] - vv[:, 0]) * qp[0, q] + (vv[:, 2] - vv[:, 0]) * qp[1, q]
                phis = [1.0] if (params["kind"] == "DP" and params["deg"] == 0) else [1 - qp[0, q] - qp[1, q], qp[0, q], qp[1, q]]
                f = sum(c[sp.local2global[el, i]] * sp.local_multipliers[el, i] * phis[i] for i in range(len(phis)))
                for p_ in range(2):
                    ref[p_] += qw[q] * g.integration_elements[el] * f * _np_textbook(name, pts[:, p_], yq, g.normals[el] * sp.normal_multipliers[el], k)
        gap = float(np.max(np.abs(got[0] - ref)) / np.max(np.abs(ref)))
        return {"gap": gap if gap > 1e-10 else 0.0, "rel_err": gap, "key": "potential_sum/%s/%s" % (params["family"], params["op"])}
    if family == "maxwell_sum":
        v, e, d = W.mesh(params["mesh"])
        g = b.Grid(np.asarray(v, dtype=float), np.asarray(e))
        b.GLOBAL_PARAMETERS.quadrature.regular = params["order"]
        sp = b.function_space(g, "RWG", 0, **params["opts"])
        import bempp_cl.api.integration.triangle_gauss as tg

        qp, qw = tg.rule(params["order"])
        worst, det = 0.0, ""
        fld = params.get("field")
        for k in (1.3, 1.1 + 0.4j, 0.8 - 0.3j):
            if fld is None and np.imag(k) != 0:
                continue  # translator validation: real wavenumbers (complex ones are decided per field by the replays)
            xp = np.array([2.0, 0.3, 1.1])
            xh = xp / np.linalg.norm(xp)
            c = rng.rand(sp.global_dof_count) + 1j * rng.rand(sp.global_dof_count)
            gf = b.GridFunction(sp, coefficients=c)
            got = {
                "E": b.operators.potential.maxwell.electric_field(sp, xp.reshape(3, 1), k).evaluate(gf)[:, 0],
                "H": b.operators.potential.maxwell.magnetic_field(sp, xp.reshape(3, 1), k).evaluate(gf)[:, 0],
                "Efar": b.operators.far_field.maxwell.electric_field(sp, xh.reshape(3, 1), k).evaluate(gf)[:, 0],
                "Hfar": b.operators.far_field.maxwell.magnetic_field(sp, xh.reshape(3, 1), k).evaluate(gf)[:, 0],
            }
            ref = {nm: np.zeros(3, dtype=complex) for nm in got}
            for el in range(g.number_of_elements):
                vv = g.vertices[:, g.elements[:, el]]
                fv = sp.evaluate(el, qp)  # (3, 3 funcs, nq) incl. multipliers
                ie = g.integration_elements[el]
                L = [np.linalg.norm(vv[:, a] - vv[:, b_]) for a, b_ in ((0, 1), (2, 0), (1, 2))]
                for q in range(len(qw)):
                    yq = vv[:, 0] + (vv[:, 1] - vv[:, 0]) * qp[0, q] + (vv[:, 2] - vv[:, 0]) * qp[1, q]
                    f = sum(c[sp.local2global[el, i]] * fv[:, i, q] for i in range(3))
                    dv = sum(c[sp.local2global[el, i]] * 2 * L[i] * sp.local_multipliers[el, i] / ie for i in range(3))
                    dd = xp - yq
                    r = np.linalg.norm(dd)
                    G = np.exp(1j * k * r) / (4 * np.pi * r)
                    gG = G * (1j * k * r - 1) / r**2 * dd
                    GF = np.exp(-1j * k * xh.dot(yq)) / (4 * np.pi)
                    w_ = qw[q] * ie
                    ref["E"] += (1j * k * G * f - gG * dv / (1j * k)) * w_
                    ref["H"] += np.cross(gG, f) * w_
                    ref["Efar"] += (1j * k * GF * f - xh * GF * dv) * w_
                    ref["Hfar"] += 1j * k * GF * np.cross(xh, f) * w_
            for nm in got:
                if fld and nm != fld:
                    continue
                gap = float(np.max(np.abs(got[nm] - ref[nm])) / np.max(np.abs(ref[nm])))
                if gap > worst:
                    worst, det = gap, "%s/%s" % (nm, "complex-k" if np.imag(k) != 0 else "real")
        return {"gap": worst if worst > 1e-9 else 0.0, "rel_err": worst, "key": "maxwell_sum/%s" % (det if worst > 1e-9 else "")}
    if family == "ff_translation":
        worst = 0.0
        for name in ("far_field_single_layer", "far_field_double_layer"):
            fn = getattr(nk, KERNELS[name][0])
            x = rng.rand(3)
            x /= np.linalg.norm(x)
            y, n, t = rng.rand(3), rng.rand(3) - 0.5, rng.rand(3) * 2
            kp = np.array([1.7, 0.0])
            a0 = fn(x, y.reshape(3, 1), np.zeros(3), n.reshape(3, 1), kp)[0]
            a1 = fn(x, (y + t).reshape(3, 1), np.zeros(3), n.reshape(3, 1), kp)[0]
            worst = max(worst, abs(a1 - a0 * np.exp(-1j * 1.7 * x.dot(t))) / abs(a0))
        return {"gap": worst if worst > 1e-10 else 0.0, "key": "ff_translation"}
    if family == "ff_limit":
        # r exp(-ikr) * potential(r x^) -> far field (real k), validated at r = 1e5
        v, e, d = W.mesh("T6")
        g = b.Grid(np.asarray(v, dtype=float), np.asarray(e))
        sp = b.function_space(g, "P", 1)
        c = rng.rand(sp.global_dof_count)
        gf = b.GridFunction(sp, coefficients=c)
        xh = np.array([[0.6], [0.0], [0.8]])
        k, r = 1.3, 1e5
        worst = 0.0
        for opn in ("single_layer", "double_layer"):
            ff = getattr(b.operators.far_field.helmholtz, opn)(sp, xh, k).evaluate(gf)[0, 0]
            pv = getattr(b.operators.potential.helmholtz, opn)(sp, r * xh, k).evaluate(gf)[0, 0] * r * np.exp(-1j * k * r)
            worst = max(worst, abs(ff - pv) / abs(ff))
        return {"gap": worst if worst > 1e-3 else 0.0, "rel_diff_at_r_1e5": worst, "key": "ff_limit"}
    if family == "fd_maxwell":
        # curl H = -ik E and div E = 0 to quadrature + finite-difference accuracy on a closed mesh (octahedron)
        v, e, d = W.mesh("T6")
        g = b.Grid(np.asarray(v, dtype=float), np.asarray(e))
        b.GLOBAL_PARAMETERS.quadrature.regular = 8
        sp = b.function_space(g, "RWG", 0)
        c = rng.rand(sp.global_dof_count) + 1j * rng.rand(sp.global_dof_count)
        gf = b.GridFunction(sp, coefficients=c)
        k = 1.1 + 0.2j
        x0 = np.array([2.5, 1.5, 2.0])
        h = 1e-3
        P = np.array([x0] + [x0 + s_ * h * e_ for e_ in np.eye(3) for s_ in (1, -1)]).T
        E = b.operators.potential.maxwell.electric_field(sp, P, k).evaluate(gf)
        H = b.operators.potential.maxwell.magnetic_field(sp, P, k).evaluate(gf)
        dF = lambda Fv: np.array([[(Fv[c_, 1 + 2 * j] - Fv[c_, 2 + 2 * j]) / (2 * h) for j in range(3)] for c_ in range(3)])  # dF[c][j] = dF_c/dx_j
        dE, dH = dF(E), dF(H)
        curl = lambda D: np.array([D[2][1] - D[1][2], D[0][2] - D[2][0], D[1][0] - D[0][1]])
        sc_ = np.max(np.abs(E[:, 0])) * abs(k)
        res = {"curlE-ikH": float(np.max(np.abs(curl(dE) - 1j * k * H[:, 0])) / sc_), "curlH+ikE": float(np.max(np.abs(curl(dH) + 1j * k * E[:, 0])) / sc_),
               "divE": float(abs(np.trace(dE)) / sc_), "divH": float(abs(np.trace(dH)) / sc_)}
        bad = max(res.values())
        b.GLOBAL_PARAMETERS.quadrature.regular = 4
        return dict(res, gap=bad if bad > 1e-3 else 0.0, key="fd_maxwell")
    raise KeyError(family)
