"""C15 - linear solvers return solutions of the stated system in the right spaces.

SciPy's solvers are contract stubs: scipy.linalg.solve / lu_factor / lu_solve return a fresh vector x constrained by
M x = b; scipy.sparse.linalg.gmres / cg record the operator and right-hand side they are handed, call the callback a
few times with fresh symbolic arguments and return a fresh vector and info.  The real wrappers (direct_solvers.py,
iterative_solvers.py, the packing helpers of blocked_operator.py) run on symbolic operators and grid functions.
Decided: the system handed to SciPy is (weak form, projections in dual_to_range) resp. (strong form, coefficients);
the answer is unpacked over A.domain_spaces in order with the right lengths and spaces; lu(A, A*f) == f given an
inverse of the (symbolic) matrix; count/residual outputs are those of the callback calls; precomputed factors take the
same path."""
import time
import numpy as np
import z3
from ..sym import SR, SC, ABS, ZERO, eq_formula
from ..npshim import SA, lift_arr, sym_array, isobj
from .. import world as W
from .. import lapack

LEVEL = "other"
EXPLANATION = (
    "Solver wrappers executed symbolically against contract stubs of SciPy's LAPACK/Krylov entry points; the wiring (which operator, which right-hand side, "
    "how the answer is unpacked, what the iteration outputs report) is decided as polynomial identities over symbolic matrices, vectors and callbacks (z3/cvc5)."
)
ROUNDS = ((("z3", 20), ("cvc5", 20)), (("z3", 120), ("cvc5", 120)))


def prove_recovers(ctx, name, Wm, V, x, c, params, extra=()):
    """W x = W c (the LAPACK contract for lu(A, A*f)) and V W = I  |-  x = c.
    Decided in LRA after monomial abstraction: the hypotheses are instantiated with the products the textbook proof
    x = V W x = V W c = c uses (V_ij * (W x - W c)_j,  ((V W)_ik - delta_ik) * x_k  and  * c_k)."""
    from .. import linear as LN
    from ..sym import term

    n = len(c)
    polys = []

    def parts(e):
        e = SC.lift(e)
        return [e.re, e.im]

    Wx = Wm @ x
    Wc = Wm @ c
    VW = V @ Wm
    for i in range(n):
        for j in range(n):
            for p in parts(V[i, j] * (Wx[j] - Wc[j])):
                polys.append(p)
    for i in range(n):
        for k in range(n):
            d = VW[i, k] - (1 if i == k else 0)
            for vec in (x, c):
                for p in parts(d * vec[k]):
                    polys.append(p)
    hyps = [LN.lin(LN.expand(term(p))) == 0 for p in polys]
    claims = []
    for i in range(n):
        for p in parts(x[i] - c[i]):
            claims.append(LN.lin(LN.expand(term(p))) == 0)
    ctx.prove(name, z3.And(*(claims + list(extra))), hyps, family="lu", params=params, abs_cons=False, group="lu")


def run(ctx):
    import bempp_cl.api as b
    import scipy.sparse.linalg as spl
    from bempp_cl.api.assembly.boundary_operator import BoundaryOperator
    from bempp_cl.api.assembly.discrete_boundary_operator import DenseDiscreteBoundaryOperator
    from bempp_cl.api.assembly.blocked_operator import BlockedOperator

    lapack.install()
    ctx.bound("operators", "single operator 2x2 (DP0 on a 2-element mesh) and 4x4 (P1), 2x2 blocked operator with blocks of sizes 2 and 4 (6 unknowns); real and complex entries")
    ctx.out("convergence to the requested tolerance, info == 0, conditioning: properties of SciPy's floating-point iterations")
    ctx.stub("scipy.linalg.solve / lu_factor / lu_solve -> fresh x with M x = b (contract: non-singular system solved)")
    ctx.stub("scipy.sparse.linalg.gmres / cg -> record (A, b, options), call the callback k=2 times with fresh arguments, return fresh x and info")
    v, e, d = W.mesh("F2")
    g = b.Grid(np.asarray(v, dtype=float), np.asarray(e))
    dp0 = b.function_space(g, "DP", 0)  # 2 dofs
    p1 = b.function_space(g, "P", 1, include_boundary_dofs=True)  # 4 dofs
    Mdp0 = lift_arr(dp0.mass_matrix().to_sparse().toarray())
    Mp1 = lift_arr(p1.mass_matrix().to_sparse().toarray())
    Minv = {id(dp0): lapack.exact_inverse(Mdp0), id(p1): lapack.exact_inverse(Mp1)}
    Mass = {id(dp0): Mdp0, id(p1): Mp1}

    class SymOp(BoundaryOperator):
        def __init__(self, name, dom, ran, dual, cplx=False):
            super().__init__(dom, ran, dual, b.GLOBAL_PARAMETERS)
            self.mat = sym_array(name, (dual.global_dof_count, dom.global_dof_count), complex_=cplx)

        def _assemble(self):
            return DenseDiscreteBoundaryOperator(self.mat)

    calls = []

    def krylov(kind):
        def fn(A_op, b_vec, **kw):
            rec = {"kind": kind, "A": A_op, "b": b_vec, "kw": kw, "cb": []}
            calls.append(rec)
            cb = kw.get("callback")
            n = np.shape(b_vec)[0]
            for it in range(2):
                arg = SR.var("%s_r%d_%d" % (kind, len(calls), it)) if kind == "gmres" else sym_array("%s_x%d_%d" % (kind, len(calls), it), (n,))
                rec["cb"].append(arg)
                if cb is not None:
                    cb(arg)
            x = sym_array("%s_sol%d" % (kind, len(calls)), (n,), complex_=any(isinstance(t, SC) for t in np.asarray(b_vec, dtype=object).ravel()))
            rec["x"] = x
            return x, 7  # info is passed through unchanged

        return fn

    def dense_of(op, n):
        """matrix of a discrete operator, by applying it to the identity columns."""
        if hasattr(op, "to_dense"):
            try:
                return lift_arr(op.to_dense())
            except Exception:
                pass
        cols = [np.asarray(op @ lift_arr(np.eye(n)[:, j]), dtype=object).ravel() for j in range(n)]
        return lift_arr(np.array(cols, dtype=object).T)

    t0 = time.time()
    for cplx in (False, True):
        tag = "c" if cplx else "r"
        A = SymOp("A" + tag, dp0, dp0, dp0, cplx)
        cf = sym_array("f" + tag, (2,), complex_=cplx)
        f = b.GridFunction(dp0, coefficients=cf)
        rhs = A * f  # projections W c_f in dual space dp0
        # ---- direct solve: system handed to LAPACK and unpacking
        ncon = len(lapack.CONTRACTS)
        sol = b.lu(A, rhs)
        con = lapack.CONTRACTS[ncon:]
        claims = [z3.BoolVal(sol.space is dp0)]
        # the contract equations ARE 'weak-form matrix times returned coefficients == projections of b'
        prod = A.mat @ sol.coefficients
        proj = A.mat @ cf
        ctx.prove("lu/single/%s/system" % tag, z3.And(*([f_ for _, f_ in W.entries_eq(prod, proj)] + claims)), con, family="lu", params={"complex": cplx}, abs_cons=False, group="lu")
        # lu(A, A*f) == f given that the matrix is invertible (V W = I)
        V = sym_array("V" + tag, (2, 2), complex_=cplx)
        inv_h = [f_ for _, f_ in W.entries_eq(V @ A.mat, lift_arr(np.eye(2)))]
        prove_recovers(ctx, "lu/single/%s/recovers-f" % tag, A.mat, V, np.asarray(sol.coefficients, dtype=object), cf, {"complex": cplx})
        ctx.expect_sat("lu/single/%s/witness" % tag, con + inv_h, abs_cons=False, group="lu")
        # precomputed factors take the same path
        fac = b.compute_lu_factors(A)
        ncon = len(lapack.CONTRACTS)
        sol2 = b.lu(A, rhs, lu_factor=fac)
        con2 = lapack.CONTRACTS[ncon:]
        prove_recovers(ctx, "lu/single/%s/precomputed-factors" % tag, A.mat, V, np.asarray(sol2.coefficients, dtype=object), cf, {"complex": cplx}, extra=[z3.BoolVal(sol2.space is dp0)])

        # ---- iterative solvers: weak and strong form
        with W.patched((spl, "gmres", krylov("gmres")), (spl, "cg", krylov("cg"))):
            for solver in ("gmres", "cg"):
                for strong in (False, True):
                    del calls[:]
                    fn = getattr(b, solver)
                    kw = dict(tol=1e-7, maxiter=50, use_strong_form=strong, return_residuals=True, return_iteration_count=True)
                    if solver == "gmres":
                        kw["restart"] = 20
                    out = fn(A, rhs if not strong else f, **kw)
                    res_fun, info, residuals, count = out
                    rec = calls[0]
                    Wm = A.mat
                    expA = (Minv[id(dp0)] @ Wm).view(SA) if strong else Wm
                    expb = cf if strong else (Wm @ cf)
                    cl = [f_ for _, f_ in W.entries_eq(dense_of(rec["A"], 2), expA)]
                    cl += [f_ for _, f_ in W.entries_eq(np.asarray(rec["b"], dtype=object).ravel(), np.asarray(expb, dtype=object).ravel())]
                    cl += [f_ for _, f_ in W.entries_eq(np.asarray(res_fun.coefficients, dtype=object), rec["x"])]
                    ok = res_fun.space is dp0 and info == 7 and count == 2 and len(residuals) == 2
                    ok = ok and rec["kw"].get("maxiter") == 50 and (rec["kw"].get("rtol", rec["kw"].get("tol")) == 1e-7) and (solver != "gmres" or rec["kw"].get("restart") == 20)
                    cl.append(z3.BoolVal(bool(ok)))
                    if len(residuals) == 2:
                        for i in range(2):
                            if solver == "gmres":
                                expr = abs(rec["cb"][i])
                                cl.append(z3.Or(eq_formula(residuals[i], expr), eq_formula(residuals[i] * residuals[i], rec["cb"][i] * rec["cb"][i])))
                            else:
                                r = np.asarray(expb, dtype=object) - np.asarray(expA @ rec["cb"][i], dtype=object)
                                n2 = ZERO
                                for t in r.ravel():
                                    t = SC.lift(t)
                                    n2 = n2 + t.re * t.re + t.im * t.im
                                cl.append(eq_formula(residuals[i] * residuals[i], n2))
                    ctx.prove("%s/single/%s/%s" % (solver, tag, "strong" if strong else "weak"), z3.And(*cl), [], family="krylov", params={"solver": solver, "strong": strong, "complex": cplx}, abs_cons="cone", group=solver)

    # ---------------- blocked operator with blocks of different sizes
    ops = {(0, 0): SymOp("B00", dp0, dp0, dp0), (0, 1): SymOp("B01", p1, dp0, dp0), (1, 0): SymOp("B10", dp0, p1, p1), (1, 1): SymOp("B11", p1, p1, p1)}
    blk = BlockedOperator(2, 2)
    for k_, o in ops.items():
        blk[k_] = o
    full = np.block([[ops[(0, 0)].mat, ops[(0, 1)].mat], [ops[(1, 0)].mat, ops[(1, 1)].mat]]).view(SA)
    c0, c1 = sym_array("u", (2,)), sym_array("w", (4,))
    fl = [b.GridFunction(dp0, coefficients=c0), b.GridFunction(p1, coefficients=c1)]
    cvec = np.concatenate([c0, c1]).view(SA)
    rhs = blk * fl
    ncon = len(lapack.CONTRACTS)
    sol = b.lu(blk, rhs)
    con = lapack.CONTRACTS[ncon:]
    got = np.concatenate([np.asarray(s.coefficients, dtype=object) for s in sol]).view(SA)
    ok = len(sol) == 2 and sol[0].space is dp0 and sol[1].space is p1 and len(sol[0].coefficients) == 2 and len(sol[1].coefficients) == 4
    ctx.prove("lu/blocked/system-and-unpacking", z3.And(*([f_ for _, f_ in W.entries_eq(full @ got, full @ cvec)] + [z3.BoolVal(bool(ok))])), con, family="lu_blocked", params={}, abs_cons=False, group="lu")
    with W.patched((spl, "gmres", krylov("gmres"))):
        for strong in (False, True):
            del calls[:]
            out = b.gmres(blk, rhs if not strong else fl, use_strong_form=strong, return_iteration_count=True)
            res, info, count = out
            rec = calls[0]
            Mi = np.block([[Minv[id(dp0)], lift_arr(np.zeros((2, 4)))], [lift_arr(np.zeros((4, 2))), Minv[id(p1)]]]).view(SA)
            expA = (Mi @ full).view(SA) if strong else full
            expb = cvec if strong else (full @ cvec)
            cl = [f_ for _, f_ in W.entries_eq(dense_of(rec["A"], 6), expA)] + [f_ for _, f_ in W.entries_eq(np.asarray(rec["b"], dtype=object).ravel(), np.asarray(expb, dtype=object).ravel())]
            got = np.concatenate([np.asarray(s.coefficients, dtype=object) for s in res]).view(SA)
            cl += [f_ for _, f_ in W.entries_eq(got, rec["x"])]
            cl.append(z3.BoolVal(bool(len(res) == 2 and res[0].space is dp0 and res[1].space is p1 and count == 2 and info == 7)))
            for j in range(0, len(cl), 10):
                ctx.prove("gmres/blocked/%s/%d" % ("strong" if strong else "weak", j // 10), z3.And(*cl[j : j + 10]), [], family="krylov_blocked", params={"strong": strong}, abs_cons=False, group="gmres")
    # blocked operator whose range and dual spaces have different sizes: projections must be split by the DUAL sizes
    ops2 = {(0, 0): SymOp("R00", dp0, dp0, p1), (0, 1): SymOp("R01", p1, dp0, p1), (1, 0): SymOp("R10", dp0, p1, dp0), (1, 1): SymOp("R11", p1, p1, dp0)}
    blk2 = BlockedOperator(2, 2)
    for k_, o in ops2.items():
        blk2[k_] = o
    full2 = np.block([[ops2[(0, 0)].mat, ops2[(0, 1)].mat], [ops2[(1, 0)].mat, ops2[(1, 1)].mat]]).view(SA)
    try:
        out = blk2 * fl
        img = full2 @ cvec
        cl = [z3.BoolVal(len(out[0].projections()) == 4 and len(out[1].projections()) == 2)]
        if len(out[0].projections()) == 4 and len(out[1].projections()) == 2:
            cl += [f_ for _, f_ in W.entries_eq(np.asarray(out[0].projections(), dtype=object), img[:4])] + [f_ for _, f_ in W.entries_eq(np.asarray(out[1].projections(), dtype=object), img[4:])]
        ctx.prove("blocked/apply/range-and-dual-sizes-differ", z3.And(*cl), [], family="blocked_projections", params={}, abs_cons=False, group="blocked")
    except (ValueError, IndexError, TypeError) as ex:
        ctx.violation("blocked/apply/range-and-dual-sizes-differ/raises", "blocked_projections", {}, "%s: %s" % (type(ex).__name__, str(ex)[:200]))
    ctx.twin("twin/lu-returns-rhs", z3.And(*[f_ for _, f_ in W.entries_eq(np.asarray(sol2.coefficients, dtype=object), np.asarray(A.mat @ cf, dtype=object))]), con2 + inv_h, abs_cons=False)
    ctx.encode_secs["all"] = round(time.time() - t0, 2)
    for fam in ("lu", "krylov", "blocked_projections"):
        ctx.concrete(fam, fam, {})


# ----------------------------------------------------------------------------- concrete side (JIT, real SciPy)
def concrete(family, params):
    import bempp_cl.api as b
    from bempp_cl.api.assembly.blocked_operator import BlockedOperator

    v, e, d = W.mesh("T6")
    g = b.Grid(np.asarray(v, dtype=float), np.asarray(e)).refine()
    p1 = b.function_space(g, "P", 1)
    dp0 = b.function_space(g, "DP", 0)
    b.GLOBAL_PARAMETERS.quadrature.regular = 3
    b.GLOBAL_PARAMETERS.quadrature.singular = 3
    L = b.operators.boundary.laplace
    H = b.operators.boundary.helmholtz
    rng = np.random.RandomState(4)
    worst = 0.0
    bad = ""

    def upd(name, gap):
        nonlocal worst, bad
        if gap > worst:
            worst, bad = gap, name

    if family in ("lu", "lu_blocked"):
        for op, sp, cplx in ((L.single_layer(dp0, dp0, dp0), dp0, False), (H.single_layer(p1, p1, p1, 1.1 + 0.2j), p1, True)):
            c = rng.rand(sp.global_dof_count) + (1j * rng.rand(sp.global_dof_count) if cplx else 0)
            f = b.GridFunction(sp, coefficients=c)
            s1 = b.lu(op, op * f)
            upd("lu", float(np.max(np.abs(s1.coefficients - c)) / np.max(np.abs(c))))
            if s1.space != sp:
                upd("lu-space", 1.0)
            s2 = b.lu(op, op * f, lu_factor=b.compute_lu_factors(op))
            upd("lu-factors", float(np.max(np.abs(s2.coefficients - c)) / np.max(np.abs(c))))
        blk = BlockedOperator(2, 2)
        blk[0, 0], blk[0, 1], blk[1, 0], blk[1, 1] = L.single_layer(dp0, dp0, dp0), L.single_layer(p1, dp0, dp0), L.double_layer(dp0, p1, p1), b.operators.boundary.sparse.identity(p1, p1, p1) + L.single_layer(p1, p1, p1)
        c0, c1 = rng.rand(dp0.global_dof_count), rng.rand(p1.global_dof_count)
        fl = [b.GridFunction(dp0, coefficients=c0), b.GridFunction(p1, coefficients=c1)]
        sol = b.lu(blk, blk * fl)
        upd("lu-blocked", float(max(np.max(np.abs(sol[0].coefficients - c0)), np.max(np.abs(sol[1].coefficients - c1)))))
        thr = 1e-7
    elif family in ("krylov", "krylov_blocked"):
        op = L.single_layer(dp0, dp0, dp0)
        c = rng.rand(dp0.global_dof_count)
        f = b.GridFunction(dp0, coefficients=c)
        for strong in (False, True):
            s, info, res, cnt = b.gmres(op, op * f, tol=1e-10, use_strong_form=strong, return_residuals=True, return_iteration_count=True)
            upd("gmres", float(np.max(np.abs(s.coefficients - c)) / np.max(np.abs(c))))
            if info != 0 or cnt != len(res) or s.space != dp0:
                upd("gmres-outputs", 1.0)
            s, info, res, cnt = b.cg(op, op * f, tol=1e-10, use_strong_form=strong, return_residuals=True, return_iteration_count=True)
            upd("cg", float(np.max(np.abs(s.coefficients - c)) / np.max(np.abs(c))))
            if info != 0 or cnt != len(res):
                upd("cg-outputs", 1.0)
        thr = 1e-6
    elif family == "blocked_projections":
        # range and dual spaces of different sizes
        blk = BlockedOperator(2, 2)
        blk[0, 0], blk[0, 1] = L.single_layer(dp0, dp0, p1), L.single_layer(p1, dp0, p1)
        blk[1, 0], blk[1, 1] = L.single_layer(dp0, p1, dp0), L.single_layer(p1, p1, dp0)
        c0, c1 = rng.rand(dp0.global_dof_count), rng.rand(p1.global_dof_count)
        fl = [b.GridFunction(dp0, coefficients=c0), b.GridFunction(p1, coefficients=c1)]
        full = blk.weak_form().to_dense()
        img = full @ np.concatenate([c0, c1])
        n0 = p1.global_dof_count
        try:
            out = blk * fl
            p0, p1_ = out[0].projections(), out[1].projections()
            if len(p0) != n0 or len(p1_) != dp0.global_dof_count:
                return {"gap": 1.0, "lengths": [len(p0), len(p1_)], "expected": [n0, dp0.global_dof_count], "key": "blocked_projections/range-dual-size"}
            upd("proj", float(max(np.max(np.abs(p0 - img[:n0])), np.max(np.abs(p1_ - img[n0:])))))
        except Exception as ex:
            return {"gap": 1.0, "raised": "%s: %s" % (type(ex).__name__, str(ex)[:200]), "key": "blocked_projections/range-dual-size"}
        thr = 1e-10
    else:
        raise KeyError(family)
    return {"gap": worst if worst > thr else 0.0, "worst": worst, "case": bad, "key": "%s/%s" % (family, bad if worst > thr else "")}
