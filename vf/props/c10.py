"""C10 - barycentric and dual-grid spaces represent the functions they claim to.

(a) pointwise agreement: for every coefficient vector (symbolic), every coarse element e, each of its six barycentric
    sub-triangles and every local point (symbolic), GridFunction(space, c) evaluated at the corresponding point of e
    equals GridFunction(space.barycentric_representation(), c) evaluated on the sub-triangle.  The parent-local
    coordinates of each sub-triangle are derived by the harness from the positions of its vertices (coarse vertex /
    edge midpoint / centroid), not from the library's numbering.  DP0 and P1 on multi-domain meshes incl. segment
    spaces; RWG and SNC with symbolic vertex coordinates (all derived geometry recomputed by the real code);
(b) every dual basis function takes its documented nodal values (1 at its barycentre / vertex, 1/2 at edge
    midpoints, 1/n at n-valent vertices);
(c) mixed mass matrices identity(primal, primal, dual) == exact integrals of the product of the two bases (dual
    functions written by the harness from the documented nodal values), for EVERY quadrature rule satisfying the
    moment equations of the needed degree (symbolic rule; LRA after monomial abstraction) and free symbolic
    integration elements on the barycentric grid."""
import time
from fractions import Fraction as F
import numpy as np
import z3
from ..sym import SR, SC, ABS, ZERO, ONE, term, eq_formula
from ..npshim import SA, lift_arr, sym_array
from .. import world as W
from .. import lemmas as LM
from .c13 import SymRule, prove_under_moments, padd, pscale, pmul, pint, peval, P1REF, I2
from .c09 import dual_nodal_mismatches, REF

LEVEL = "other"
EXPLANATION = (
    "Barycentric representations are compared pointwise with the original functions through the public GridFunction.evaluate for symbolic coefficients "
    "and a symbolic point of each sub-triangle (polynomial identities; RWG/SNC with symbolic vertex coordinates and sqrt atoms); dual nodal values are "
    "evaluated exactly; primal x dual mass matrices are proved equal to exact integrals under a symbolic quadrature rule constrained only by its moments (LRA)."
)
ROUNDS = ((("z3", 20), ("cvc5", 20)), (("z3", 120), ("cvc5", 120)), (("z3", 400), ("cvc5", 400)))


def sub_triangle_maps(g, bg, e, sym=False):
    """for sub-triangle j of coarse element e: parent-local coordinates (Fractions) of its three vertices, found by
    matching vertex POSITIONS against coarse vertices, edge midpoints and the centroid."""
    cand = [(REF[0], [0]), (REF[1], [1]), (REF[2], [2]), ((F(1, 2), F(0)), [0, 1]), ((F(1, 2), F(1, 2)), [1, 2]), ((F(0), F(1, 2)), [0, 2]), ((F(1, 3), F(1, 3)), [0, 1, 2])]
    out = []
    V = g.vertices
    for j in range(6):
        b_ = 6 * e + j
        loc = []
        for li in range(3):
            bv = int(bg.elements[li, b_])
            pos = [bg.vertices[d_, bv] for d_ in range(3)]
            found = None
            for pc_, idx in cand:
                want = [sum((V[d_, int(g.elements[i, e])] for i in idx), ZERO) * F(1, len(idx)) for d_ in range(3)]
                if sym:
                    s_ = z3.Solver()
                    s_.set("timeout", 5000)
                    s_.add(z3.Not(z3.And(*[eq_formula(SR.lift(pos[d_]), SR.lift(want[d_])) for d_ in range(3)])))
                    same = s_.check() == z3.unsat
                else:
                    same = all(abs(float(SR.lift(pos[d_]).c) - float(SR.lift(want[d_]).c)) < 1e-12 for d_ in range(3))
                if same:
                    found = pc_
                    break
            if found is None:
                raise AssertionError("barycentric vertex %d of element %d is no vertex, edge midpoint or centroid of the parent" % (bv, b_))
            loc.append(found)
        out.append(loc)
    return out


def run(ctx):
    import os
    import bempp_cl.api as b
    import bempp_cl.api.integration.triangle_gauss as tg

    thorough = ctx.thorough
    ctx.bound("(a) scalar", "DP0 / P1 on T5, T9 (T6 thorough) incl. segment spaces and include_boundary_dofs; symbolic coefficients and local point")
    ctx.bound("(a) vector", "RWG / SNC on T2 (T4 thorough) with symbolic vertex coordinates; symbolic coefficients and local point")
    ctx.bound("(b)", "DUAL0 / DUAL1 on the closed meshes T4, T6")
    ctx.bound("(c)", "P1 x DUAL0, DP0 x DUAL1, P1 x DUAL1 on T4 (T6 thorough); symbolic rule with 3 points, moments up to the product degree; free integration elements")
    ctx.out("BC / RBC (Buffa-Christiansen) coefficient tables and their mixed mass matrices")
    ctx.out("that the six sub-triangles tile the parent with 1/6 of its area each (decided in C11)")
    u, v_ = SR(z3.Real("u")), SR(z3.Real("v"))
    lp = lift_arr(np.array([[u], [v_]], dtype=object))

    def parent_point(loc):
        p0, p1, p2 = loc
        return lift_arr(np.array([[p0[0] + (p1[0] - p0[0]) * u + (p2[0] - p0[0]) * v_], [p0[1] + (p1[1] - p0[1]) * u + (p2[1] - p0[1]) * v_]], dtype=object))

    # ---------------- (a) pointwise agreement
    t0 = time.time()
    scal = [("T5", "P", 1, {"include_boundary_dofs": True}), ("T9", "P", 1, {"segments": [1], "include_boundary_dofs": True}), ("T9", "DP", 0, {"segments": [0, 1]}), ("T4", "P", 1, {})]
    if thorough:
        scal += [("T6", "P", 1, {}), ("T9", "P", 1, {"segments": [0]}), ("T7", "DP", 0, {})]
    for ci, (mesh, kind, deg, opts) in enumerate(scal):
        v, e, d = W.mesh(mesh)
        g = b.Grid(np.asarray(v, dtype=float), np.asarray(e), np.asarray(d, dtype="uint32"))
        bg = g.barycentric_refinement
        sp = b.function_space(g, kind, deg, **opts)
        bs = sp.barycentric_representation()
        c = sym_array("c%d_" % ci, (sp.global_dof_count,))
        gf, gb = b.GridFunction(sp, coefficients=c), b.GridFunction(bs, coefficients=c)
        params = {"mesh": mesh, "kind": kind, "deg": deg, "opts": opts}
        for el in sp.support_elements:
            el = int(el)
            maps = sub_triangle_maps(g, bg, el)
            cl = []
            for j in range(6):
                a_ = gf.evaluate(el, parent_point(maps[j]))[0, 0]
                c_ = gb.evaluate(6 * el + j, lp)[0, 0]
                cl.append(eq_formula(a_, c_))
            ctx.prove("a/%s/%s%d/%d/el%d" % (mesh, kind, deg, ci, el), z3.And(*cl), [], family="pointwise", params=params, abs_cons=False, group="a-%s%d" % (kind, deg))
            if ci == 0 and el == int(sp.support_elements[0]):
                ctx.twin("twin/bary-function-shifted", eq_formula(gf.evaluate(el, parent_point(maps[1]))[0, 0], gb.evaluate(6 * el, lp)[0, 0]), [], abs_cons=False)
        ctx.concrete("pointwise/%d" % ci, "pointwise", params)
    vecs = [("T2", "RWG", {"include_boundary_dofs": True}), ("T2", "SNC", {"include_boundary_dofs": True}), ("T9", "RWG", {"segments": [1], "include_boundary_dofs": True})]
    if thorough:
        vecs += [("T4", "RWG", {}), ("T9", "SNC", {"segments": [1], "include_boundary_dofs": True})]
    for ci, (mesh, kind, opts) in enumerate(vecs):
        ABS.reset()
        g = W.symgrid(mesh, tag="g%d" % ci, geometry="vertices")
        bg = g.barycentric_refinement
        sp = b.function_space(g, kind, 0, **opts)
        bs = sp.barycentric_representation()
        c = sym_array("vc%d_" % ci, (sp.global_dof_count,))
        gf, gb = b.GridFunction(sp, coefficients=c), b.GridFunction(bs, coefficients=c)
        params = {"mesh": mesh, "kind": kind, "deg": 0, "opts": opts}
        pending = []
        for el in sp.support_elements:
            el = int(el)
            maps = sub_triangle_maps(g, bg, el, sym=True)
            for j in range(6):
                a_ = gf.evaluate(el, parent_point(maps[j]))
                c_ = gb.evaluate(6 * el + j, lp)
                pending.append((el, j, [eq_formula(a_[d_, 0], c_[d_, 0]) for d_ in range(3)]))
        # relations between the norms the real geometry code created (e.g. ie_sub = ie_parent / 6, half edges)
        chain = LM.sqrt_scaling_chain(ctx, "pointwise", "a-lemma-%s-%s" % (mesh, kind), generic_name="a/lemma/generic-sqrt-scaling")
        for el, j, cl in pending:
            if True:
                names = ABS.atoms_in(cl)
                hy = [x_ > 0 for x_ in ABS.sqrt_args(names)] + chain
                ctx.prove("a/%s/%s/el%d/sub%d" % (mesh, kind, el, j), z3.And(*cl), hy, family="pointwise", params=params, abs_cons="cone", group="a-%s" % kind)
        ctx.concrete("pointwise/%s/%d" % (kind, ci), "pointwise", params)
    ctx.encode_secs["a"] = round(time.time() - t0, 2)
    if os.environ.get("VF_DEV_ONLY_A"):
        return

    # ---------------- (b) dual nodal values
    t0 = time.time()
    for mesh in ("T4", "T6"):
        v, e, d = W.mesh(mesh)
        g = b.Grid(np.asarray(v, dtype=float), np.asarray(e))
        for kind, deg in (("DUAL", 0), ("DUAL", 1)):
            bad = dual_nodal_mismatches(b, g, kind, deg)
            ctx.prove("b/nodal/%s/%s%d" % (mesh, kind, deg), z3.BoolVal(not bad), [], family="dual_nodal", params={"mesh": mesh, "kind": kind, "deg": deg, "first_mismatches": bad[:4]}, abs_cons=False, group="b-nodal-%s%d" % (kind, deg))
            ctx.concrete("dual_nodal/%s/%s%d" % (mesh, kind, deg), "dual_nodal", {"mesh": mesh, "kind": kind, "deg": deg})
    ctx.encode_secs["b"] = round(time.time() - t0, 2)

    # ---------------- (c) mixed mass matrices under a symbolic rule
    t0 = time.time()
    srule = SymRule(3)
    real_rule = tg.rule
    tg.rule = srule.rule
    sparse = b.operators.boundary.sparse
    ctx.stub("api.integration.triangle_gauss.rule -> symbolic points/weights constrained by their moment equations (part c)")
    try:
        for mesh in (("T4", "T6") if thorough else ("T4",)):
            v, e, d = W.mesh(mesh)
            g = b.Grid(np.asarray(v, dtype=float), np.asarray(e))
            bg = g.barycentric_refinement
            NV, NE = g.number_of_vertices, g.number_of_elements
            maps = [sub_triangle_maps(g, bg, el) for el in range(NE)]
            W.symbolize(bg, tag="bg" + mesh)
            ieb = bg.data().integration_elements
            valence = np.bincount(np.asarray(g.elements).ravel(), minlength=NV)
            gv_ = np.asarray(g.vertices, dtype=float)

            def compose(poly, loc):
                """polynomial in parent coordinates -> polynomial in sub-triangle coordinates."""
                p0, p1, p2 = loc
                X = {(0, 0): p0[0], (1, 0): p1[0] - p0[0], (0, 1): p2[0] - p0[0]}
                Y = {(0, 0): p0[1], (1, 0): p1[1] - p0[1], (0, 1): p2[1] - p0[1]}
                out = {}
                for (a, c_), co in poly.items():
                    t = {(0, 0): F(1)}
                    for _ in range(a):
                        t = pmul(t, X)
                    for _ in range(c_):
                        t = pmul(t, Y)
                    out = padd(out, pscale(t, co))
                return out

            def primal_on_sub(space, dof, el, j):
                """coarse basis function `dof` restricted to sub-triangle j of element el (polynomial in sub coordinates)."""
                out = {}
                for i in range(space.number_of_shape_functions):
                    if int(space.local2global[el, i]) == dof and space.local_multipliers[el, i] != 0:
                        ref = P1REF[i] if space.number_of_shape_functions == 3 else {(0, 0): F(1)}
                        out = padd(out, pscale(compose(ref, maps[el][j]), space.local_multipliers[el, i]))
                return out

            def dual_on_sub(kind, deg, dof, el, j):
                """dual basis function from its documented nodal values (polynomial in sub coordinates)."""
                b_ = 6 * el + j
                if deg == 0:
                    # DUAL0 function of coarse vertex dof: 1 on the sub-triangles that touch the vertex
                    return {(0, 0): F(1)} if dof in [int(x) for x in bg.elements[:, b_]] else {}
                vals = []
                for li in range(3):
                    bv = int(bg.elements[li, b_])
                    pl = maps[el][j][li]
                    if pl in REF:
                        vals.append(F(1, int(valence[bv])) if bv in [int(x) for x in g.elements[:, dof]] else F(0))
                    elif pl == (F(1, 3), F(1, 3)):
                        vals.append(F(1) if el == dof else F(0))
                    else:
                        # edge midpoint: 1/2 if the edge belongs to coarse element dof
                        idx = {(F(1, 2), F(0)): (0, 1), (F(1, 2), F(1, 2)): (1, 2), (F(0), F(1, 2)): (0, 2)}[pl]
                        ends = {int(g.elements[idx[0], el]), int(g.elements[idx[1], el])}
                        vals.append(F(1, 2) if ends <= set(int(x) for x in g.elements[:, dof]) else F(0))
                return {(0, 0): vals[0], (1, 0): vals[1] - vals[0], (0, 1): vals[2] - vals[0]}

            for (pk, pd), (dk, dd), mdeg in ((("P", 1), ("DUAL", 0), 1), (("DP", 0), ("DUAL", 1), 1), (("P", 1), ("DUAL", 1), 2)):
                prim = b.function_space(g, pk, pd)
                dual = b.function_space(g, dk, dd)
                M = sparse.identity(prim, prim, dual).weak_form().to_sparse().toarray()
                params = {"mesh": mesh, "primal": [pk, pd], "dual": [dk, dd]}
                n = 0
                for i in range(dual.global_dof_count):
                    for j_ in range(prim.global_dof_count):
                        acc = ZERO
                        for el in range(NE):
                            for sj in range(6):
                                pp = primal_on_sub(prim, j_, el, sj)
                                dp = dual_on_sub(dk, dd, i, el, sj)
                                if pp and dp:
                                    acc = acc + pint(pmul(pp, dp)) * ieb[6 * el + sj]
                        prove_under_moments(ctx, "c/%s/%s%d-%s%d/%d_%d" % (mesh, pk, pd, dk, dd, i, j_), M[i, j_], acc, srule, mdeg, "mixed_mass", params, "c-%s%d-%s%d" % (pk, pd, dk, dd))
                        n += 1
                ctx.sample({"c": params, "entries": n})
                ctx.concrete("mixed_mass/%s/%s%d-%s%d" % (mesh, pk, pd, dk, dd), "mixed_mass", params)
    finally:
        tg.rule = real_rule
    ctx.encode_secs["c"] = round(time.time() - t0, 2)


# ----------------------------------------------------------------------------- concrete side (JIT)
def _sub_maps_np(g, bg, e):
    cand = [((0.0, 0.0), [0]), ((1.0, 0.0), [1]), ((0.0, 1.0), [2]), ((0.5, 0.0), [0, 1]), ((0.5, 0.5), [1, 2]), ((0.0, 0.5), [0, 2]), ((1 / 3, 1 / 3), [0, 1, 2])]
    out = []
    for j in range(6):
        loc = []
        for li in range(3):
            pos = bg.vertices[:, bg.elements[li, 6 * e + j]]
            for pc_, idx in cand:
                if np.allclose(pos, g.vertices[:, g.elements[idx, e]].mean(axis=1)):
                    loc.append(pc_)
                    break
        out.append(np.array(loc))
    return out


def concrete(family, params):
    import bempp_cl.api as b

    rng = np.random.RandomState(3)
    v, e, d = W.mesh(params["mesh"])
    vv = np.asarray(v, dtype=float)
    if family == "pointwise":
        vv = vv + 0.07 * rng.rand(*vv.shape)
        g = b.Grid(vv, np.asarray(e), np.asarray(d, dtype="uint32"))
        bg = g.barycentric_refinement
        sp = b.function_space(g, params["kind"], params["deg"], **params["opts"])
        bs = sp.barycentric_representation()
        c = rng.rand(sp.global_dof_count)
        gf, gb = b.GridFunction(sp, coefficients=c), b.GridFunction(bs, coefficients=c)
        worst = 0.0
        for el in sp.support_elements:
            el = int(el)
            maps = _sub_maps_np(g, bg, el)
            for j in range(6):
                for (u, w) in ((0.2, 0.3), (0.6, 0.1), (0.1, 0.8)):
                    p = maps[j][0] + (maps[j][1] - maps[j][0]) * u + (maps[j][2] - maps[j][0]) * w
                    a = gf.evaluate(el, p.reshape(2, 1))[:, 0]
                    c_ = gb.evaluate(6 * el + j, np.array([[u], [w]]))[:, 0]
                    worst = max(worst, float(np.max(np.abs(a - c_))))
        return {"gap": worst if worst > 1e-10 else 0.0, "max_abs_diff": worst, "key": "pointwise/%s%d" % (params["kind"], params["deg"])}
    g = b.Grid(vv, np.asarray(e))
    if family == "dual_nodal":
        from .c09 import concrete as c09c

        r = c09c("partition_of_unity", params)
        r["key"] = "dual_nodal/%s%d" % (params["kind"], params["deg"])
        return r
    if family == "mixed_mass":
        # numerical reference: integrate the product of the two GridFunction bases with a high-order rule on the barycentric grid
        import bempp_cl.api.integration.triangle_gauss as tg

        bg = g.barycentric_refinement
        prim = b.function_space(g, *params["primal"])
        dual = b.function_space(g, *params["dual"])
        M = b.operators.boundary.sparse.identity(prim, prim, dual).weak_form().to_sparse().toarray()
        qp, qw = tg.rule(6)
        ref = np.zeros(M.shape)
        pf = [b.GridFunction(prim, coefficients=np.eye(prim.global_dof_count)[j]) for j in range(prim.global_dof_count)]
        df = [b.GridFunction(dual, coefficients=np.eye(dual.global_dof_count)[i]) for i in range(dual.global_dof_count)]
        for el in range(g.number_of_elements):
            maps = _sub_maps_np(g, bg, el)
            for sj in range(6):
                be = 6 * el + sj
                pts_parent = (maps[sj][0].reshape(2, 1) + np.outer(maps[sj][1] - maps[sj][0], qp[0]) + np.outer(maps[sj][2] - maps[sj][0], qp[1]))
                for j in range(prim.global_dof_count):
                    pv = pf[j].evaluate(el, pts_parent)[0]
                    if not np.any(pv):
                        continue
                    for i in range(dual.global_dof_count):
                        dv = df[i].evaluate(be, qp)[0]
                        ref[i, j] += bg.integration_elements[be] * np.sum(qw * pv * dv)
        gap = float(np.max(np.abs(M - ref)) / np.max(np.abs(ref)))
        return {"gap": gap if gap > 1e-10 else 0.0, "rel_err": gap, "key": "mixed_mass/%s%d-%s%d" % (tuple(params["primal"]) + tuple(params["dual"]))}
    raise KeyError(family)
