"""C13 - sparse operators, projections and integrals are exact L2 quantities.

(A) identity operators == exact L2 inner products, for EVERY quadrature rule that satisfies the moment
    equations up to the degree of the integrand (the rule is symbolic; moments are hypotheses; the
    statement is decided in LRA after monomial abstraction);
(B) Laplace-Beltrami == exact surface-gradient products, annihilates constants;
(C) GridFunction.integrate / evaluate_on_element_centers / evaluate_on_vertices / projections / l2_norm^2
    == direct quadrature of sum c_d * multiplier * phi written by the harness (real tables, exact rationals);
(D) MultiplicationOperator == quadrature of g * phi_j * phi_i."""
import itertools
import time
from fractions import Fraction as F
from math import factorial
import numpy as np
import z3
from ..sym import SR, SC, ABS, ZERO, ONE, term, rv, eq_formula, _lcm, _quot, _prod
from ..npshim import SA, lift_arr, sym_array
from .. import world as W
from .. import linear as LN

LEVEL = "other"
EXPLANATION = (
    "Sparse assembler and GridFunction routines executed symbolically on free geometry arrays. Identity / Laplace-Beltrami matrices are compared with "
    "closed-form reference-element integrals under a SYMBOLIC quadrature rule constrained only by its moment equations (so the verdict covers every order "
    "that integrates the product exactly), decided in LRA after a sound monomial abstraction; integrals, evaluations and projections are compared with a "
    "harness-written direct quadrature over the same rule."
)
ROUNDS = ((("z3", 20), ("cvc5", 20)), (("z3", 120), ("cvc5", 120)))


def I2(a, b):
    return F(factorial(a) * factorial(b), factorial(a + b + 2))


# ---- tiny polynomial algebra on the reference triangle: {(a,b): coefficient (SR or Fraction)}
def padd(p, q):
    out = dict(p)
    for k, c in q.items():
        out[k] = out.get(k, 0) + c
    return out


def pscale(p, s):
    return {k: c * s for k, c in p.items()}


def pmul(p, q):
    out = {}
    for (a, b), c in p.items():
        for (a2, b2), c2 in q.items():
            k = (a + a2, b + b2)
            out[k] = out.get(k, 0) + c * c2
    return out


def pint(p):
    r = ZERO
    for (a, b), c in p.items():
        r = r + c * I2(a, b)
    return r


def peval(p, x, y):
    r = ZERO
    for (a, b), c in p.items():
        r = r + c * (x**a if a else 1) * (y**b if b else 1)
    return r


P1REF = [{(0, 0): F(1), (1, 0): F(-1), (0, 1): F(-1)}, {(1, 0): F(1)}, {(0, 1): F(1)}]
RWGREF = [[{(1, 0): F(1)}, {(0, 1): F(1), (0, 0): F(-1)}], [{(1, 0): F(1), (0, 0): F(-1)}, {(0, 1): F(1)}], [{(1, 0): F(1)}, {(0, 1): F(1)}]]


def edge_lengths(gd, el):
    v = [gd.vertices[:, int(gd.elements[i, el])] for i in range(3)]
    pairs = [(0, 1), (2, 0), (1, 2)]
    out = []
    for a, b in pairs:
        d = v[a] - v[b]
        out.append((d[0] * d[0] + d[1] * d[1] + d[2] * d[2]).sqrt())
    return out


def local_basis(space, el):
    """harness-written local basis on element el: list over local index of list over components of polynomials,
    INCLUDING the local multiplier."""
    gd = space.grid.data()
    ident = space.shapeset.identifier
    m = space.local_multipliers[el]
    if ident == "p0_discontinuous":
        return [[{(0, 0): ONE * m[0]}]]
    if ident == "p1_discontinuous":
        return [[pscale(P1REF[i], ONE * m[i])] for i in range(3)]
    if ident in ("rwg0", "snc0"):
        J = gd.jacobians[el]
        ie = gd.integration_elements[el]
        L = edge_lengths(gd, el)
        out = []
        for i in range(3):
            comps = []
            for c in range(3):
                p = padd(pscale(RWGREF[i][0], J[c, 0]), pscale(RWGREF[i][1], J[c, 1]))
                comps.append(pscale(p, L[i] * m[i] / ie))
            if space.identifier.startswith("snc"):
                n = gd.normals[el] * space.normal_multipliers[el]
                comps = [
                    padd(pscale(comps[2], n[1]), pscale(comps[1], -n[2])),
                    padd(pscale(comps[0], n[2]), pscale(comps[2], -n[0])),
                    padd(pscale(comps[1], n[0]), pscale(comps[0], -n[1])),
                ]
            out.append(comps)
        return out
    raise KeyError(ident)


def exact_mass(test, trial):
    g = test.grid
    gd = g.data()
    M = np.empty((test.global_dof_count, trial.global_dof_count), dtype=object)
    M.fill(ZERO)
    for el in np.flatnonzero(test.support * trial.support):
        bt, bd = local_basis(test, el), local_basis(trial, el)
        for i, fi in enumerate(bt):
            for j, fj in enumerate(bd):
                acc = ZERO
                for c in range(len(fi)):
                    acc = acc + pint(pmul(fi[c], fj[c]))
                gi, gj = int(test.local2global[el, i]), int(trial.local2global[el, j])
                M[gi, gj] = M[gi, gj] + acc * gd.integration_elements[el]
    return M.view(SA)


def cross_diff(a, b):
    a, b = SR.lift(a), SR.lift(b)
    L = _lcm(a.d, b.d)
    x, y = a.num(), b.num()
    q = _quot(L, a.d)
    if q:
        x = x * _prod(q)
    q = _quot(L, b.d)
    if q:
        y = y * _prod(q)
    return x - y


class SymRule:
    def __init__(self, Q, tag="r"):
        self.Q = Q
        self.px = [z3.Real("%spx%d" % (tag, q)) for q in range(Q)]
        self.py = [z3.Real("%spy%d" % (tag, q)) for q in range(Q)]
        self.pw = [z3.Real("%spw%d" % (tag, q)) for q in range(Q)]
        self.names = {str(v) for v in self.px + self.py + self.pw}

    def rule(self, order):
        pts = np.empty((2, self.Q), dtype=object)
        w = np.empty(self.Q, dtype=object)
        for q in range(self.Q):
            pts[0, q], pts[1, q], w[q] = SR(self.px[q]), SR(self.py[q]), SR(self.pw[q])
        return pts.view(SA), w.view(SA)

    def moment_polys(self, maxdeg):
        out = []
        for a in range(maxdeg + 1):
            for b in range(maxdeg + 1 - a):
                t = z3.Sum([self.pw[q] * z3.Product([self.px[q]] * a + [self.py[q]] * b + [z3.RealVal(1)]) for q in range(self.Q)])
                out.append((LN.expand(t), I2(a, b)))
        return out


def prove_under_moments(ctx, name, a, b, srule, maxdeg, family, params, group):
    """a == b for every rule satisfying the moment equations up to maxdeg (LRA after monomial abstraction)."""
    parts = [(a, b)]
    if isinstance(a, SC) or isinstance(b, SC):
        a, b = SC.lift(a), SC.lift(b)
        parts = [(a.re, b.re), (a.im, b.im)]
    hyps = []
    claims = []
    moms = srule.moment_polys(maxdeg)
    seen = set()
    for x, y in parts:
        P = LN.expand(cross_diff(x, y))
        for c in LN.split(P, srule.names):
            if c in seen:
                continue
            seen.add(c)
            cp = {tuple(c): F(1)}
            for mp, val in moms:
                hyps.append(LN.lin(LN.pmul(cp, mp)) == LN.lin({k: v * val for k, v in cp.items()}))
        claims.append(LN.lin(P) == 0)
    return ctx.prove(name, z3.And(*claims), hyps, family=family, params=params, abs_cons=False, group=group)


def run(ctx):
    import bempp_cl.api as b
    import bempp_cl.api.integration.triangle_gauss as tg
    from bempp_cl.api.assembly.boundary_operator import MultiplicationOperator

    sparse = b.operators.boundary.sparse
    thorough = ctx.thorough
    ctx.bound("meshes", "T2, T4, T5, T9 (<= 4 elements) with free symbolic geometry arrays")
    ctx.bound("quadrature", "(A,B) symbolic rule with Q=3 points constrained only by its moment equations up to degree 2; (C,D) real tables of order 3 as exact rationals")
    ctx.out("positive (semi-)definiteness for arbitrary meshes; projection of callables (needs the mass solve: C15); float32")
    ctx.stub("api.integration.triangle_gauss.rule -> symbolic points/weights for groups A and B")
    seg = lambda s, **kw: dict(segments=s, **kw)
    real_rule = tg.rule

    # ---------------- (A) identity with a symbolic rule
    srule = SymRule(3)
    tg.rule = srule.rule
    try:
        cfgs = [
            ("T4", ("DP", 0, {}), ("DP", 0, {}), 0),
            ("T4", ("P", 1, {}), ("P", 1, {}), 2),
            ("T9", ("P", 1, seg([1], include_boundary_dofs=True)), ("DP", 1, seg([0, 1])), 2),
            ("T5", ("DP", 0, {}), ("P", 1, {"include_boundary_dofs": True}), 1),
            ("T2", ("RWG", 0, {"include_boundary_dofs": True}), ("RWG", 0, {"include_boundary_dofs": True}), 2),
            ("T2", ("RWG", 0, {"include_boundary_dofs": True}), ("SNC", 0, {"include_boundary_dofs": True}), 2),
        ]
        if thorough:
            cfgs += [("T9", ("RWG", 0, seg([1], include_boundary_dofs=True)), ("SNC", 0, {"include_boundary_dofs": True}), 2), ("T6", ("P", 1, {}), ("DP", 1, {}), 2)]
        for ci, (mesh, trial, test, deg) in enumerate(cfgs):
            t0 = time.time()
            ABS.reset()
            g = W.symgrid(mesh, tag="m%d" % ci)
            dom = b.function_space(g, trial[0], trial[1], **trial[2])
            dual = b.function_space(g, test[0], test[1], **test[2])
            M = sparse.identity(dom, dual, dual).weak_form().to_sparse().toarray()
            spec = exact_mass(dual, dom)
            params = {"mesh": mesh, "trial": list(trial), "test": list(test)}
            n = 0
            for idx in np.ndindex(*spec.shape):
                prove_under_moments(ctx, "A%d/%s/%s-%s/%d_%d" % (ci, mesh, trial[0], test[0], idx[0], idx[1]), M[idx], spec[idx], srule, deg, "identity", params, "A%d-identity-%s-%s-%s" % (ci, mesh, trial[0], test[0]))
                n += 1
            if ci == 1:
                # negative twin: with moments only up to degree 1 the P1 mass matrix is NOT determined
                prove_under_moments(ctx, "twin/identity-needs-degree-2-moments", M[0, 0], spec[0, 0], srule, 1, None, None, "twin").kind = "twin"
                # entries sum to the surface area (partition of unity)
                tot = ZERO
                for idx in np.ndindex(*M.shape):
                    tot = tot + M[idx]
                area = ZERO
                for el in range(g.number_of_elements):
                    area = area + g.data().integration_elements[el] * F(1, 2)
                prove_under_moments(ctx, "A%d/sum-is-area" % ci, tot, area, srule, deg, "identity", params, "A-sum-is-area")
                for i in range(M.shape[0]):
                    for j in range(i):
                        ctx.prove("A%d/symmetric/%d_%d" % (ci, i, j), eq_formula(M[i, j], M[j, i]), [], family="identity", params=params, abs_cons=False, group="A-symmetric")
            ctx.sample({"A": params, "entries": n, "encode_s": round(time.time() - t0, 2)})
            if thorough or ci == 5:
                ctx.concrete("identity/%d" % ci, "identity", params)
            ctx.log("A%d identity %s %s x %s: %d entries %.1fs" % (ci, mesh, trial[0], test[0], n, time.time() - t0))

        # ---------------- (B) Laplace-Beltrami
        for ci, (mesh, kw) in enumerate([("T5", {"include_boundary_dofs": True}), ("T4", {})]):
            ABS.reset()
            g = W.symgrid(mesh, tag="l%d" % ci)
            gd = g.data()
            p1 = b.function_space(g, "P", 1, **kw)
            LB = sparse.laplace_beltrami(p1, p1, p1).weak_form().to_sparse().toarray()
            spec = np.empty(LB.shape, dtype=object)
            spec.fill(ZERO)
            refgrad = [[F(-1), F(1), F(0)], [F(-1), F(0), F(1)]]
            for el in np.flatnonzero(p1.support):
                Jit = gd.jac_inv_trans[el]
                grads = [[Jit[c, 0] * refgrad[0][a] + Jit[c, 1] * refgrad[1][a] for c in range(3)] for a in range(3)]
                for i in range(3):
                    for j in range(3):
                        dot = grads[i][0] * grads[j][0] + grads[i][1] * grads[j][1] + grads[i][2] * grads[j][2]
                        gi, gj = int(p1.local2global[el, i]), int(p1.local2global[el, j])
                        spec[gi, gj] = spec[gi, gj] + dot * gd.integration_elements[el] * F(1, 2) * p1.local_multipliers[el, i] * p1.local_multipliers[el, j]
            params = {"mesh": mesh, "kw": kw}
            for idx in np.ndindex(*spec.shape):
                prove_under_moments(ctx, "B%d/%s/%d_%d" % (ci, mesh, idx[0], idx[1]), LB[idx], spec[idx], srule, 0, "laplace_beltrami", params, "B%d-laplace-beltrami-%s" % (ci, mesh))
            if mesh == "T4":
                for i in range(LB.shape[0]):
                    s = ZERO
                    for j in range(LB.shape[1]):
                        s = s + LB[i, j]
                    ctx.prove("B/annihilates-constants/%d" % i, eq_formula(s, ZERO), [], family="laplace_beltrami", params=params, abs_cons=False, group="B-annihilates-constants")
            if thorough or ci == 0:
                ctx.concrete("laplace_beltrami/%d" % ci, "laplace_beltrami", params)
    finally:
        tg.rule = real_rule

    # ---------------- (C) grid function routines vs direct quadrature (real tables)
    order = 3
    pts, wts = tg.rule(order)
    nq = len(wts)
    for ci, (mesh, spc) in enumerate([("T5", ("P", 1, {"include_boundary_dofs": True})), ("T2", ("RWG", 0, {"include_boundary_dofs": True})), ("T9", ("DP", 1, seg([1, 2])))] + ([("T4", ("SNC", 0, {}))] if thorough else [])):
        t0 = time.time()
        ABS.reset()
        g = W.symgrid(mesh, tag="f%d" % ci)
        gd = g.data()
        W.set_orders(order, 1)
        sp = b.function_space(g, spc[0], spc[1], **spc[2])
        c = sym_array("c%d" % ci, (sp.global_dof_count,), complex_=(ci in (0, 1)))
        f = b.GridFunction(sp, coefficients=c)
        params = {"mesh": mesh, "space": list(spc), "order": order}
        dim = sp.codomain_dimension

        def fun_poly(el):
            lb = local_basis(sp, el)
            comps = []
            for d in range(dim):
                p = {}
                for i in range(len(lb)):
                    p = padd(p, pscale(lb[i][d], c[int(sp.local2global[el, i])]))
                comps.append(p)
            return comps

        # integrate
        try:
            got = f.integrate()
            spec = [ZERO] * dim
            for el in np.flatnonzero(sp.support):
                fp = fun_poly(el)
                for d in range(dim):
                    for q in range(nq):
                        spec[d] = spec[d] + peval(fp[d], pts[0, q], pts[1, q]) * wts[q] * gd.integration_elements[el]
            for d in range(dim):
                ctx.prove("C%d/integrate/%s/%d" % (ci, spc[0], d), eq_formula(got[d], spec[d]), [], family="gf_integrate", params=params, abs_cons=False, group="C-integrate-" + spc[0])
        except (TypeError, ValueError, IndexError, AttributeError) as e:
            ctx.violation("C%d/integrate/%s/raises" % (ci, spc[0]), "gf_integrate", params, "integrate raised %s" % e)
        # element centres and vertices
        got = f.evaluate_on_element_centers()
        for el in range(g.number_of_elements):
            fp = fun_poly(el) if sp.support[el] else [{} for _ in range(dim)]
            for d in range(dim):
                ctx.prove("C%d/centers/%s/%d_%d" % (ci, spc[0], d, el), eq_formula(got[d, el], peval(fp[d], F(1, 3), F(1, 3))), [], family="gf_centers", params=params, abs_cons=False, group="C-centers-" + spc[0])
        got = f.evaluate_on_vertices()
        corner = [(F(0), F(0)), (F(1), F(0)), (F(0), F(1))]
        for vtx in range(g.number_of_vertices):
            num = [ZERO] * dim
            den = ZERO
            for el in np.flatnonzero(sp.support):
                for i in range(3):
                    if int(g.elements[i, el]) == vtx:
                        fp = fun_poly(el)
                        area = gd.integration_elements[el] * F(1, 2)
                        den = den + area
                        for d in range(dim):
                            num[d] = num[d] + peval(fp[d], *corner[i]) * area
            for d in range(dim):
                if den.c is not None and den.c == 0:
                    ctx.prove("C%d/vertices/%s/%d_%d" % (ci, spc[0], d, vtx), eq_formula(got[d, vtx], ZERO), [], family="gf_vertices", params=params, abs_cons=False, group="C-vertices-" + spc[0])
                else:
                    ctx.prove("C%d/vertices/%s/%d_%d" % (ci, spc[0], d, vtx), eq_formula(got[d, vtx], num[d] / den), [], family="gf_vertices", params=params, abs_cons=False, group="C-vertices-" + spc[0])
        # projections and the quadratic form behind l2_norm
        proj = f.projections()
        M = exact_mass(sp, sp)
        if spc[0] in ("P", "DP"):  # degree-2 integrand is exact for the order-3 table only up to table rounding: compare with quadrature instead
            pass
        spec = np.empty(sp.global_dof_count, dtype=object)
        spec.fill(ZERO)
        for el in np.flatnonzero(sp.support):
            lb = local_basis(sp, el)
            fp = fun_poly(el)
            for i in range(len(lb)):
                for q in range(nq):
                    acc = ZERO
                    for d in range(dim):
                        acc = acc + peval(lb[i][d], pts[0, q], pts[1, q]) * peval(fp[d], pts[0, q], pts[1, q])
                    gi = int(sp.local2global[el, i])
                    spec[gi] = spec[gi] + acc * wts[q] * gd.integration_elements[el]
        for i in range(sp.global_dof_count):
            ctx.prove("C%d/projections/%s/%d" % (ci, spc[0], i), eq_formula(proj[i], spec[i]), [], family="gf_projections", params=params, abs_cons=False, group="C-projections-" + spc[0])
        # l2_norm: sqrt(|c^H M c|) with M the mass matrix of the same rule; compared through its 4th power
        # ( l2^2 = |z|,  |z|^2 = Re(z)^2 + Im(z)^2 ) with z = sum_i conj(c_i) * (M c)_i written by the harness
        try:
            if spc[0] not in ("P", "DP"):
                raise KeyError  # RWG/SNC l2_norm identity (edge-length atoms inside nested roots) is not decided within budget
            l2 = f.l2_norm()
            z = SC(ZERO, ZERO)
            for i in range(sp.global_dof_count):
                z = z + SC.lift(c[i]).conjugate() * SC.lift(spec[i])
            l2sq = l2 * l2
            ctx.prove("C%d/l2_norm/%s" % (ci, spc[0]), eq_formula(l2sq * l2sq, z.re * z.re + z.im * z.im), [], family="gf_l2norm", params=params, abs_cons="cone", group="C-l2norm-" + spc[0])
        except KeyError:
            ctx.out("l2_norm of vector-valued (RWG/SNC) functions as a symbolic identity (covered only by the concrete replay)")
        except (TypeError, ValueError, AttributeError) as e:
            ctx.violation("C%d/l2_norm/%s/raises" % (ci, spc[0]), "gf_l2norm", params, "l2_norm raised %s" % e)
        if thorough or ci == 1:
            ctx.concrete("gf/%d" % ci, "gf", params)
        ctx.log("C%d grid function %s %s %.1fs" % (ci, mesh, spc[0], time.time() - t0))

    # ---------------- (D) MultiplicationOperator on a segment
    ABS.reset()
    g = W.symgrid("T9", tag="d")
    gd = g.data()
    W.set_orders(order, 1)
    dp0 = b.function_space(g, "DP", 0)
    p1s = b.function_space(g, "P", 1, segments=[1, 2], include_boundary_dofs=True)
    dp0s = b.function_space(g, "DP", 0, segments=[1, 2])
    cg = sym_array("g", (dp0.global_dof_count,))
    gf = b.GridFunction(dp0, coefficients=cg)
    params = {"mesh": "T9", "order": order}
    try:
        Mm = MultiplicationOperator(gf, p1s, dp0s, dp0s).weak_form().to_sparse().toarray()
        spec = np.empty(Mm.shape, dtype=object)
        spec.fill(ZERO)
        for el in np.flatnonzero(p1s.support * dp0s.support):
            bt, bd = local_basis(dp0s, el), local_basis(p1s, el)
            gv = cg[int(dp0.local2global[el, 0])]
            for i in range(len(bt)):
                for j in range(len(bd)):
                    acc = ZERO
                    for q in range(nq):
                        acc = acc + peval(bt[i][0], pts[0, q], pts[1, q]) * peval(bd[j][0], pts[0, q], pts[1, q]) * wts[q]
                    gi, gj = int(dp0s.local2global[el, i]), int(p1s.local2global[el, j])
                    spec[gi, gj] = spec[gi, gj] + acc * gv * gd.integration_elements[el]
        for idx in np.ndindex(*spec.shape):
            ctx.prove("D/multiplication/segment/%d_%d" % idx, eq_formula(Mm[idx], spec[idx]), [], family="multiplication", params=params, abs_cons=False, group="D-multiplication")
    except (TypeError, ValueError, IndexError, AttributeError) as e:
        ctx.violation("D/multiplication/segment/raises", "multiplication", params, "raised %s" % e)
    ctx.concrete("multiplication", "multiplication", params)
    # mode='inner': (g . f_j) tested with a scalar space, g and f_j RWG functions
    ABS.reset()
    g2 = W.symgrid("T2", tag="di")
    gd2 = g2.data()
    rw = b.function_space(g2, "RWG", 0, include_boundary_dofs=True)
    dq = b.function_space(g2, "DP", 0)
    cg2 = sym_array("gi", (rw.global_dof_count,))
    params2 = {"mesh": "T2", "order": order, "mode": "inner"}
    try:
        Mi = MultiplicationOperator(b.GridFunction(rw, coefficients=cg2), rw, dq, dq, mode="inner").weak_form().to_sparse().toarray()
        spec = np.empty(Mi.shape, dtype=object)
        spec.fill(ZERO)
        for el in range(g2.number_of_elements):
            lb = local_basis(rw, el)
            for j in range(3):
                acc = ZERO
                for q in range(nq):
                    gq = [sum((cg2[int(rw.local2global[el, k_])] * peval(lb[k_][d_], pts[0, q], pts[1, q]) for k_ in range(3)), ZERO) for d_ in range(3)]
                    fq = [peval(lb[j][d_], pts[0, q], pts[1, q]) for d_ in range(3)]
                    acc = acc + (gq[0] * fq[0] + gq[1] * fq[1] + gq[2] * fq[2]) * wts[q]
                gi, gj = int(dq.local2global[el, 0]), int(rw.local2global[el, j])
                spec[gi, gj] = spec[gi, gj] + acc * gd2.integration_elements[el]
        for idx in np.ndindex(*spec.shape):
            names = ABS.atoms_in([eq_formula(Mi[idx], spec[idx])])
            ctx.prove("D/multiplication/inner/%d_%d" % idx, eq_formula(Mi[idx], spec[idx]), [a_ > 0 for a_ in ABS.sqrt_args(names)], family="multiplication_inner", params=params2, abs_cons="cone", group="D-multiplication-inner")
    except (TypeError, ValueError, IndexError, AttributeError) as e:
        ctx.violation("D/multiplication/inner/raises", "multiplication_inner", params2, "raised %s: %s" % (type(e).__name__, e))
    ctx.concrete("multiplication_inner", "multiplication_inner", params2)
    # ---------------- (E) projections of a callable (jit-style and vectorised) == direct quadrature of f * psi_i
    ABS.reset()
    gE = W.symgrid("T9", tag="e", geometry="vertices")
    gdE = gE.data()
    from bempp_cl.api.assembly.grid_function import callable as bcallable

    Ff = z3.Function("Fcb", *([z3.RealSort()] * 7), z3.RealSort())
    Fi = z3.Function("Fcb_im", *([z3.RealSort()] * 7), z3.RealSort())

    def Fval(x, n, dom, cplx):
        a = [z3.simplify(term(c), som=True, mul_to_power=False) for c in list(x) + list(n)] + [z3.RealVal(int(dom))]
        return SC(SR(Ff(*a)), SR(Fi(*a))) if cplx else SR(Ff(*a))

    for cplx in (False, True):
        def f_scalar(x, n, domain_index, res, cplx=cplx):
            res[0] = Fval(x, n, domain_index, cplx)

        def f_vec(x, n, domain_index, res, cplx=cplx):
            for j in range(x.shape[1]):
                res[0, j] = Fval(x[:, j], n[:, j], domain_index[j], cplx)

        for kind, deg, opts in (("DP", 1, {"segments": [1]}), ("P", 1, {"segments": [1, 2], "include_boundary_dofs": True, "swapped_normals": [2]})):
            spE = b.function_space(gE, kind, deg, **opts)
            spec = np.empty(spE.global_dof_count, dtype=object)
            spec.fill(SC(ZERO, ZERO) if cplx else ZERO)
            for el in np.flatnonzero(spE.support):
                vv = [gdE.vertices[:, int(gdE.elements[i, el])] for i in range(3)]
                nrm = [gdE.normals[el][d_] * int(spE.normal_multipliers[el]) for d_ in range(3)]
                lb = local_basis(spE, el)
                for q in range(nq):
                    u_, v_ = pts[0, q], pts[1, q]
                    xq = [vv[0][d_] * (ONE - u_ - v_) + vv[1][d_] * u_ + vv[2][d_] * v_ for d_ in range(3)]
                    fv = Fval(xq, nrm, gdE.domain_indices[el], cplx)
                    for i in range(len(lb)):
                        gi = int(spE.local2global[el, i])
                        spec[gi] = spec[gi] + fv * (peval(lb[i][0], u_, v_) * wts[q] * gdE.integration_elements[el])
            for label, fun in (("jit", bcallable(f_scalar, complex=cplx, jit=True)), ("vectorized", bcallable(f_vec, complex=cplx, vectorized=True))):
                paramsE = {"mesh": "T9", "kind": kind, "deg": deg, "opts": opts, "callable": label, "complex": cplx, "order": order}
                try:
                    got = b.GridFunction(spE, fun=fun, dual_space=spE).projections()
                    cl = [f_ for _, f_ in W.entries_eq(np.asarray(got, dtype=object).ravel(), spec)]
                    names = ABS.atoms_in(cl)
                    ctx.prove("E/callable/%s/%s%d/%s" % (label, kind, deg, "complex" if cplx else "real"), z3.And(*cl), [a_ > 0 for a_ in ABS.sqrt_args(names)], family="callable_projection", params=paramsE, abs_cons="cone", group="E-callable-%s" % label)
                except (TypeError, ValueError, IndexError, AttributeError) as e:
                    ctx.violation("E/callable/%s/%s%d/raises" % (label, kind, deg), "callable_projection", paramsE, "raised %s: %s" % (type(e).__name__, str(e)[:160]))
    ctx.concrete("callable_projection", "callable_projection", {"mesh": "T9", "order": order})
    ctx.twin("twin/multiplication-wrong-element", eq_formula(ONE * gd.integration_elements[1], ONE * gd.integration_elements[0]), [], abs_cons=False)


# ----------------------------------------------------------------------------- concrete side (JIT)
def _np_basis(space, el, pts):
    """harness basis values at points (dim, nshape, npts), float."""
    gd = space.grid.data()
    x, y = pts
    ident = space.shapeset.identifier
    m = space.local_multipliers[el]
    if ident == "p0_discontinuous":
        return np.ones((1, 1, len(x))) * m[0]
    if ident == "p1_discontinuous":
        return np.array([[(1 - x - y) * m[0], x * m[1], y * m[2]]])
    J = gd.jacobians[el]
    ie = gd.integration_elements[el]
    v = [gd.vertices[:, gd.elements[i, el]] for i in range(3)]
    L = [np.linalg.norm(v[0] - v[1]), np.linalg.norm(v[2] - v[0]), np.linalg.norm(v[1] - v[2])]
    ref = [np.array([x, y - 1]), np.array([x - 1, y]), np.array([x, y])]
    out = np.zeros((3, 3, len(x)))
    for i in range(3):
        f = J @ ref[i] * L[i] * m[i] / ie
        if space.identifier.startswith("snc"):
            n = gd.normals[el] * space.normal_multipliers[el]
            f = np.cross(n, f.T).T
        out[:, i, :] = f
    return out


def concrete(family, params):
    import bempp_cl.api as b
    import bempp_cl.api.integration.triangle_gauss as tg
    from bempp_cl.api.assembly.boundary_operator import MultiplicationOperator

    v, e, d = W.mesh(params["mesh"])
    g = b.Grid(np.asarray(v, dtype=float), np.asarray(e), np.asarray(d, dtype="uint32"))
    gd = g.data()
    order = params.get("order", 4)
    b.GLOBAL_PARAMETERS.quadrature.regular = order
    pts, w = tg.rule(order)
    sparse = b.operators.boundary.sparse

    def quad_mass(test, trial):
        M = np.zeros((test.global_dof_count, trial.global_dof_count))
        for el in np.flatnonzero(test.support * trial.support):
            bt, bd = _np_basis(test, el, pts), _np_basis(trial, el, pts)
            loc = np.einsum("diq,djq,q->ij", bt, bd, w) * gd.integration_elements[el]
            for i in range(loc.shape[0]):
                for j in range(loc.shape[1]):
                    M[test.local2global[el, i], trial.local2global[el, j]] += loc[i, j]
        return M

    if family == "identity":
        tr, te = params["trial"], params["test"]
        dom = b.function_space(g, tr[0], tr[1], **tr[2])
        dual = b.function_space(g, te[0], te[1], **te[2])
        M = sparse.identity(dom, dual, dual).weak_form().to_sparse().toarray()
        spec = quad_mass(dual, dom)
        gap = float(np.max(np.abs(M - spec)) / max(np.max(np.abs(spec)), 1e-300))
        return {"gap": gap if gap > 1e-10 else 0.0, "key": "identity/%s/%s-%s" % (params["mesh"], tr[0], te[0])}
    if family == "laplace_beltrami":
        p1 = b.function_space(g, "P", 1, **params["kw"])
        LB = sparse.laplace_beltrami(p1, p1, p1).weak_form().to_sparse().toarray()
        spec = np.zeros(LB.shape)
        refgrad = np.array([[-1, 1, 0], [-1, 0, 1.0]])
        for el in np.flatnonzero(p1.support):
            G = gd.jac_inv_trans[el] @ refgrad
            loc = G.T @ G * gd.integration_elements[el] / 2
            for i in range(3):
                for j in range(3):
                    spec[p1.local2global[el, i], p1.local2global[el, j]] += loc[i, j] * p1.local_multipliers[el, i] * p1.local_multipliers[el, j]
        gap = float(np.max(np.abs(LB - spec)) / np.max(np.abs(spec)))
        return {"gap": gap if gap > 1e-10 else 0.0, "key": "laplace_beltrami/%s" % params["mesh"]}
    if family.startswith("gf"):
        spc = params["space"]
        sp = b.function_space(g, spc[0], spc[1], **spc[2])
        rng = np.random.RandomState(2)
        c = rng.rand(sp.global_dof_count) + 0.5
        f = b.GridFunction(sp, coefficients=c)
        dim = sp.codomain_dimension
        worst = {}
        tot = np.zeros(dim)
        for el in np.flatnonzero(sp.support):
            vals = np.einsum("diq,i->dq", _np_basis(sp, el, pts), c[sp.local2global[el]])
            tot += (vals * w).sum(axis=1) * gd.integration_elements[el]
        try:
            got = np.asarray(f.integrate()).ravel()
            worst["integrate"] = float(np.max(np.abs(got - tot)) / max(np.max(np.abs(tot)), 1e-300))
        except Exception as ex:
            worst["integrate"] = 1.0
        cen = f.evaluate_on_element_centers()
        ctr = np.array([[1 / 3.0], [1 / 3.0]])
        wc = 0.0
        for el in np.flatnonzero(sp.support):
            vals = np.einsum("diq,i->dq", _np_basis(sp, el, ctr), c[sp.local2global[el]])[:, 0]
            wc = max(wc, float(np.max(np.abs(cen[:, el] - vals))))
        worst["centers"] = wc / max(float(np.max(np.abs(cen))), 1e-300)
        proj = f.projections()
        spec = quad_mass(sp, sp) @ c
        worst["projections"] = float(np.max(np.abs(proj - spec)) / np.max(np.abs(spec)))
        cc = c + 1j * rng.rand(sp.global_dof_count)
        fc = b.GridFunction(sp, coefficients=cc)
        exact = np.sqrt(abs(np.vdot(cc, quad_mass(sp, sp) @ cc)))
        worst["l2norm"] = float(abs(fc.l2_norm() - exact) / exact)
        fam = {"gf_integrate": "integrate", "gf_centers": "centers", "gf_projections": "projections", "gf_l2norm": "l2norm"}.get(family)
        if fam:
            gap = worst[fam]
            return {"gap": gap if gap > 1e-10 else 0.0, "detail": worst, "key": "%s/%s" % (family, spc[0])}
        gap = max(worst.values())
        k = max(worst, key=worst.get)
        return {"gap": gap if gap > 1e-10 else 0.0, "detail": worst, "key": "gf_%s/%s" % (k, spc[0])}
    if family == "callable_projection":
        # a smooth function of (x, n, domain) through every callable flavour against direct quadrature, on segment spaces
        vv = np.asarray(v, dtype=float) + 0.05 * np.random.RandomState(1).rand(*np.asarray(v).shape)
        gq = b.Grid(vv, np.asarray(e), np.asarray(d, dtype="uint32"))
        gdq = gq.data()

        def fs(x, n, dom, res):
            res[0] = n[0] * (1 + 2 * x[2]) + n[2] * (3 - x[1]) + 0.5 * dom + x[0] * n[1]

        def fvz(x, n, dom, res):
            res[0, :] = n[0] * (1 + 2 * x[2]) + n[2] * (3 - x[1]) + 0.5 * dom + x[0] * n[1]

        from bempp_cl.api.assembly.grid_function import callable as bcallable

        worst, det = 0.0, ""
        for kind, deg, opts in (("DP", 1, {"segments": [1]}), ("P", 1, {"segments": [1, 2], "include_boundary_dofs": True, "swapped_normals": [2]}), ("DP", 0, {"segments": [2]})):
            spq = b.function_space(gq, kind, deg, **opts)
            spec = np.zeros(spq.global_dof_count)
            for el in np.flatnonzero(spq.support):
                bb = _np_basis(spq, el, pts)[0]
                cor = gq.vertices[:, gq.elements[:, el]]
                xq = cor[:, [0]] * (1 - pts[0] - pts[1]) + cor[:, [1]] * pts[0] + cor[:, [2]] * pts[1]
                nn = gq.normals[el] * spq.normal_multipliers[el]
                fvals = nn[0] * (1 + 2 * xq[2]) + nn[2] * (3 - xq[1]) + 0.5 * gq.domain_indices[el] + xq[0] * nn[1]
                for i in range(bb.shape[0]):
                    spec[spq.local2global[el, i]] += np.sum(bb[i] * fvals * w) * gdq.integration_elements[el]
            for label, fun in (("jit", bcallable(fs, jit=True)), ("nojit", bcallable(fs, jit=False)), ("vectorized", bcallable(fvz, vectorized=True))):
                got = b.GridFunction(spq, fun=fun, dual_space=spq).projections()
                gap = float(np.max(np.abs(got - spec)) / np.max(np.abs(spec)))
                if gap > worst:
                    worst, det = gap, label
        return {"gap": worst if worst > 1e-10 else 0.0, "rel_err": worst, "key": "callable_projection/%s" % (det if worst > 1e-10 else "")}
    if family == "multiplication_inner":
        rw = b.function_space(g, "RWG", 0, include_boundary_dofs=True)
        dq = b.function_space(g, "DP", 0)
        cg = np.random.RandomState(4).rand(rw.global_dof_count)
        try:
            Mi = MultiplicationOperator(b.GridFunction(rw, coefficients=cg), rw, dq, dq, mode="inner").weak_form().to_sparse().toarray()
        except Exception as ex:
            return {"gap": 1.0, "raised": "%s: %s" % (type(ex).__name__, str(ex)[:160]), "key": "multiplication/inner/raises"}
        spec = np.zeros(Mi.shape)
        for el in range(g.number_of_elements):
            bb = _np_basis(rw, el, pts)  # (3, 3, nq)
            gq = np.einsum("diq,i->dq", bb, cg[rw.local2global[el]])
            loc = np.einsum("dq,djq,q->j", gq, bb, w) * gd.integration_elements[el]
            for j in range(3):
                spec[dq.local2global[el, 0], rw.local2global[el, j]] += loc[j]
        gap = float(np.max(np.abs(Mi - spec)) / np.max(np.abs(spec)))
        return {"gap": gap if gap > 1e-10 else 0.0, "key": "multiplication/inner"}
    if family == "multiplication":
        dp0 = b.function_space(g, "DP", 0)
        p1s = b.function_space(g, "P", 1, segments=[1, 2], include_boundary_dofs=True)
        dp0s = b.function_space(g, "DP", 0, segments=[1, 2])
        cg = np.arange(1, dp0.global_dof_count + 1, dtype=float)
        gf = b.GridFunction(dp0, coefficients=cg)
        try:
            Mm = MultiplicationOperator(gf, p1s, dp0s, dp0s).weak_form().to_sparse().toarray()
        except Exception as ex:
            return {"gap": 1.0, "raised": str(ex)[:200], "key": "multiplication/segment"}
        spec = np.zeros(Mm.shape)
        for el in np.flatnonzero(p1s.support * dp0s.support):
            bt, bd = _np_basis(dp0s, el, pts), _np_basis(p1s, el, pts)
            loc = np.einsum("diq,djq,q->ij", bt, bd, w) * gd.integration_elements[el] * cg[dp0.local2global[el, 0]]
            for i in range(loc.shape[0]):
                for j in range(loc.shape[1]):
                    spec[dp0s.local2global[el, i], p1s.local2global[el, j]] += loc[i, j]
        gap = float(np.max(np.abs(Mm - spec)) / np.max(np.abs(spec)))
        return {"gap": gap if gap > 1e-10 else 0.0, "key": "multiplication/segment"}
    raise KeyError(family)
