"""C12 - quadrature rules have their stated degree of exactness.

O1  rule lookups with a *symbolic, unbounded* integer order: ValueError iff out of range, otherwise the
    advertised number of points (path exploration of the real lookup code, LIA).
O2  exactness for *every polynomial with symbolic coefficients* of the stated degree (exact rational
    arithmetic on the tables returned by the real code; one LRA query per order).
O3  Duffy rules: point counts for symbolic n; points inside the reference triangles for *symbolic 1-D
    nodes in (0,1)* (NRA); polynomial exactness up to total degree 2n-4 with the real tables.
O4  the 6 edge and 3 vertex remaps are the affine bijections sending the reference edge / vertex to the
    requested one (symbolic point, LRA).
"""
import itertools
import math
import time
from fractions import Fraction as F
from math import factorial
import numpy as np
import z3
from ..sym import SR, SI, SB, Explorer, ABS, term, rv, Inconclusive
from ..npshim import SA, lift_arr

LEVEL = "other"
EXPLANATION = (
    "Bounded symbolic verification of the quadrature tables and rule constructors as executed from the current source: "
    "order lookups for an unbounded symbolic integer (all paths), exactness as an LRA statement over all polynomials with "
    "symbolic coefficients (|Q(p)-I(p)| <= TOL*sum|c|), Duffy region maps for symbolic 1-D nodes (NRA), remaps for a symbolic point."
)
TOL = F(5, 10**14)
ROUNDS = ((("z3", 20), ("cvc5", 20)), (("z3", 120), ("cvc5", 120)))


def I2(a, b):
    return F(factorial(a) * factorial(b), factorial(a + b + 2))


def _fr(x):
    x = SR.lift(x)
    if x.c is None:
        raise Inconclusive("table entry is not a constant")
    return x.c


def lp_exactness(ctx, name, moments, family, params, twin_index=None):
    """moments: list of (label, error Fraction e_k = Q(mono_k) - I(mono_k)).
    claim: for all c_k, a_k with a_k >= |c_k| :  sum c_k e_k <= TOL * sum a_k  (and the same for -c)."""
    if len(moments) > 48:
        # the claim is additive over monomials: deciding it for every block of 40 coefficients decides it for all of them
        for j in range(0, len(moments), 40):
            lp_exactness(ctx, "%s/block%d" % (name, j // 40), moments[j : j + 40], family, params)
        return
    cs = [z3.Real("c_%s" % lab) for lab, _ in moments]
    As = [z3.Real("a_%s" % lab) for lab, _ in moments]
    hyps = []
    for c, a in zip(cs, As):
        hyps += [a >= c, a >= -c]
    err = z3.Sum([c * rv(e) for c, (_, e) in zip(cs, moments)])
    bound = rv(TOL) * z3.Sum(As)
    ctx.prove(name, z3.And(err <= bound, -err <= bound), hyps, family=family, params=params, abs_cons=False)


def run(ctx):
    import bempp_cl.api.integration.triangle_gauss as tg
    import bempp_cl.api.integration.gauss as g1
    import bempp_cl.api.integration.duffy_galerkin as dg

    thorough = ctx.thorough
    ctx.bound("triangle orders", "1..20 (all)")
    ctx.bound("gauss orders", "1..30 (all)")
    ctx.bound("duffy orders (exactness with real tables)", "2..%d" % (7 if thorough else 5))
    ctx.bound("tolerance", "5e-14 * sum|c| (tables are 16-digit decimals; measured error on the pinned tree <= 4.1e-15)")
    ctx.out("geometric convergence of the singular rules to reference values of the 1/|x-y| integral (analytic limit)")
    ctx.out("duffy_collocation rules (not used by any Galerkin assembler)")

    # ---------------- O1: lookups for a symbolic unbounded order
    t0 = time.time()
    n = z3.Int("n")
    for nm, fn, hi, npts in (("triangle", tg.rule, 20, lambda k: int(tg.points_per_order[k - 1])), ("gauss", g1.rule, 30, lambda k: k)):
        ex = Explorer(max_paths=200)
        res = ex.run(lambda: fn(SI(n)))
        ctx.paths += ex.paths
        seen_in = set()
        for pc, out, exc in res:
            pcf = z3.And(*pc) if pc else z3.BoolVal(True)
            if exc is not None:
                if not isinstance(exc, ValueError):
                    raise exc
                # claim: on this path the order is out of range
                ctx.prove("O1/%s/raise/%d" % (nm, len(ctx.obs)), z3.Or(n < 1, n > hi), [pcf], family="lookup", params={"rule": nm}, abs_cons=False, group="O1-lookup")
            else:
                # claim: in range, and lengths as advertised
                s = z3.Solver()
                s.add(pcf)
                assert s.check() == z3.sat
                k = s.model().eval(n, model_completion=True).as_long()
                pts, w = out
                ok = (np.shape(w)[0] == npts(k)) and (np.shape(pts)[-1] == npts(k)) if 1 <= k <= hi else False
                ctx.prove("O1/%s/inrange/%d" % (nm, k), z3.And(n >= 1, n <= hi, n == k, z3.BoolVal(bool(ok))), [pcf], family="lookup", params={"rule": nm, "order": k}, abs_cons=False, group="O1-lookup")
                seen_in.add(k)
        # completeness of the path tree: every integer is on some explored path
        ctx.prove("O1/%s/paths-cover-all-ints" % nm, z3.Or([z3.And(*pc) if pc else z3.BoolVal(True) for pc, _, _ in res]), [], family="lookup", params={"rule": nm}, abs_cons=False, group="O1-lookup")
        ctx.expect_sat("O1/%s/witness-out-of-range" % nm, [z3.Or(n < 1, n > hi)], abs_cons=False, group="O1-lookup")
        if seen_in != set(range(1, hi + 1)):
            ctx.inconclusive.append("O1/%s: in-range paths %s" % (nm, sorted(seen_in)))
        ctx.sample({"O1": nm, "paths": len(res), "in_range_orders_seen": len(seen_in)})
    # get_number_of_quad_points
    for k in range(1, 21):
        try:
            p, w = tg.rule(k)
        except ValueError as ex_:
            ctx.violation("O1/triangle/order%d/rejected" % k, "lookup", {"rule": "triangle"}, "documented order rejected: %s" % str(ex_)[:120])
            continue
        if int(tg.get_number_of_quad_points(k)) != np.shape(w)[0]:
            ctx.violation("O1/triangle/npoints/%d" % k, "lookup", {"rule": "triangle", "order": k}, "get_number_of_quad_points != len(weights)")
    # Duffy point counts for symbolic n
    for adj, fac in (("coincident", 6), ("edge_adjacent", 5), ("vertex_adjacent", 2)):
        r = dg.number_of_quadrature_points(SI(n), adj)
        ctx.prove("O3/count/%s" % adj, SI.term(r) == fac * n * n * n * n, [n >= 1], family="duffy_count", params={"adj": adj}, abs_cons=False, group="O3-duffy-count")
    ctx.twin("twin/count", SI.term(dg.number_of_quadrature_points(SI(n), "coincident")) == 5 * n * n * n * n, [n >= 1], abs_cons=False)
    ctx.encode_secs["O1"] = round(time.time() - t0, 2)

    # ---------------- O2: exactness, triangle and Gauss
    t0 = time.time()
    for k in range(1, 21):
        try:
            pts, w = tg.rule(k)
        except ValueError as ex_:
            ctx.violation("O2/triangle/order%d/rejected" % k, "lookup", {"rule": "triangle"}, "documented order rejected: %s" % str(ex_)[:120])
            continue
        P0 = [_fr(x) for x in pts[0]]
        P1 = [_fr(x) for x in pts[1]]
        W = [_fr(x) for x in w]
        # powers
        mom = []
        for a in range(k + 1):
            for b in range(k + 1 - a):
                q = sum(wi * x**a * y**b for wi, x, y in zip(W, P0, P1))
                mom.append(("%d_%d" % (a, b), q - I2(a, b)))
        lp_exactness(ctx, "O2/triangle/%d" % k, mom, "tri_exact", {"order": k})
        if k == 3:
            # negative twin: the same rule is NOT exact one degree higher / with a doubled weight
            W2 = list(W)
            W2[0] = 2 * W2[0]
            mom2 = [("%d_%d" % (a, b), sum(wi * x**a * y**b for wi, x, y in zip(W2, P0, P1)) - I2(a, b)) for a in range(k + 1) for b in range(k + 1 - a)]
            lp_exactness(ctx, "twin/triangle-doubled-weight/%d" % k, mom2, None, None)
            ctx.obs[-1].kind = "twin"
            ctx.obs[-1].group = "twin"
        ctx.concrete("tri_exact/%d" % k, "tri_exact", {"order": k})
    ctx.sample({"O2": "triangle order 20", "npoints": len(W), "monomials": len(mom), "max_abs_error": float(max(abs(e) for _, e in mom))})
    for k in range(1, 31):
        try:
            x, w = g1.rule(k)
        except ValueError as ex_:
            ctx.violation("O2/gauss/order%d/rejected" % k, "lookup", {"rule": "gauss"}, "documented order rejected: %s" % str(ex_)[:120])
            continue
        X = [_fr(v) for v in x]
        W = [_fr(v) for v in w]
        mom = [("%d" % d, sum(wi * xi**d for wi, xi in zip(W, X)) - F(1, d + 1)) for d in range(2 * k)]
        lp_exactness(ctx, "O2/gauss/%d" % k, mom, "gauss_exact", {"order": k})
        ctx.concrete("gauss_exact/%d" % k, "gauss_exact", {"order": k})
    ctx.encode_secs["O2"] = round(time.time() - t0, 2)

    # ---------------- O3: Duffy
    t0 = time.time()
    nmax = 7 if thorough else 5
    for adj, fac in (("coincident", 6), ("edge_adjacent", 5), ("vertex_adjacent", 2)):
        for k in range(1, nmax + 1):
            pt, ps, w = dg.rule(k, adj)
            npt = np.shape(w)[0]
            if not (npt == fac * k**4 == np.shape(pt)[1] == np.shape(ps)[1] == int(dg.number_of_quadrature_points(k, adj))):
                ctx.violation("O3/npoints/%s/%d" % (adj, k), "duffy_exact", {"adj": adj, "order": k}, "number of points")
            if k < 2:
                continue
            deg = 2 * k - 4
            T0 = [_fr(v) for v in pt[0]]
            T1 = [_fr(v) for v in pt[1]]
            S0 = [_fr(v) for v in ps[0]]
            S1 = [_fr(v) for v in ps[1]]
            W = [_fr(v) for v in w]
            # exact moments in integer arithmetic: every power list is brought to one common denominator
            def powers(L):
                out = [[F(1)] * len(L)]
                for d in range(deg):
                    out.append([a * b for a, b in zip(out[-1], L)])
                res = []
                for lst in out:
                    D = 1
                    for v in lst:
                        D = D * v.denominator // math.gcd(D, v.denominator)
                    res.append(([int(v * D) for v in lst], D))
                return res
            pT0, pT1, pS0, pS1 = powers(T0), powers(T1), powers(S0), powers(S1)
            DW = 1
            for v in W:
                DW = DW * v.denominator // math.gcd(DW, v.denominator)
            WI = [int(v * DW) for v in W]
            mom = []
            for a, b in itertools.product(range(deg + 1), repeat=2):
                if a + b > deg:
                    continue
                wab = [wi * x * y for wi, x, y in zip(WI, pT0[a][0], pT1[b][0])]
                for c, d in itertools.product(range(deg + 1 - a - b), repeat=2):
                    if a + b + c + d > deg:
                        continue
                    q = F(sum(wv * u * v for wv, u, v in zip(wab, pS0[c][0], pS1[d][0])), DW * pT0[a][1] * pT1[b][1] * pS0[c][1] * pS1[d][1])
                    mom.append(("%d_%d_%d_%d" % (a, b, c, d), q - I2(a, b) * I2(c, d)))
            lp_exactness(ctx, "O3/exact/%s/%d" % (adj, k), mom, "duffy_exact", {"adj": adj, "order": k})
            ctx.concrete("duffy_exact/%s/%d" % (adj, k), "duffy_exact", {"adj": adj, "order": k})
    # region maps for symbolic 1-D nodes: every point inside the reference triangle
    import bempp_cl.api.integration.gauss as gmod

    real_rule = gmod.rule
    nn = 4 if thorough else 2
    xs = [z3.Real("x%d" % i) for i in range(nn)]
    ws = [z3.Real("w%d" % i) for i in range(nn)]

    def symrule(order):
        return lift_arr(np.array([SR(x) for x in xs], dtype=object)), lift_arr(np.array([SR(x) for x in ws], dtype=object))

    gmod.rule = symrule
    try:
        dom = [z3.And(x > 0, x < 1) for x in xs] + [wv > 0 for wv in ws]
        for adj in ("coincident", "edge_adjacent", "vertex_adjacent"):
            pt, ps, w = dg.rule(nn, adj)
            npt = np.shape(w)[0]
            claims = []
            for i in range(npt):
                for arr in (pt, ps):
                    a, b = term(arr[0, i]), term(arr[1, i])
                    claims.append(z3.And(a >= 0, b >= 0, a + b <= 1))
                claims.append(term(w[i]) > 0)
            # split in chunks so that each query stays small
            ch = 60
            for j in range(0, len(claims), ch):
                ctx.prove("O3/inside/%s/%d" % (adj, j // ch), z3.And(*claims[j : j + ch]), dom, family="duffy_inside", params={"adj": adj}, abs_cons=False, group="O3-duffy-inside")
            ctx.sample({"O3-inside": adj, "symbolic_1d_nodes": nn, "points": npt, "example_test_point": [str(term(pt[0, 1])), str(term(pt[1, 1]))]})
        ctx.expect_sat("O3/inside/witness", dom, abs_cons=False, group="O3-duffy-inside")
        # negative twin: with nodes allowed up to 2 the points leave the triangle
        pt, ps, w = dg.rule(nn, "coincident")
        a, b = term(ps[0, 0]), term(ps[1, 0])
        ctx.expect_sat("twin/inside-needs-nodes-in-01", [z3.And(x > 0, x < 2) for x in xs] + [z3.Not(z3.And(a >= 0, b >= 0, a + b <= 1))], kind="twin", abs_cons=False, group="twin")
    finally:
        gmod.rule = real_rule
    ctx.encode_secs["O3"] = round(time.time() - t0, 2)

    # ---------------- O4: remaps at a symbolic point
    s, t = z3.Real("s"), z3.Real("t")
    P = lift_arr(np.array([[SR(s)], [SR(t)]], dtype=object))
    ref = [(F(0), F(0)), (F(1), F(0)), (F(0), F(1))]
    for v0 in range(3):
        for v1 in range(3):
            if v0 == v1:
                continue
            q = dg.remap_points_shared_edge(P, v0, v1)
            o = 3 - v0 - v1
            claim = z3.And(*[term(q[d, 0]) == rv(ref[v0][d]) + s * rv(ref[v1][d] - ref[v0][d]) + t * rv(ref[o][d] - ref[v0][d]) for d in range(2)])
            ctx.prove("O4/edge/%d%d" % (v0, v1), claim, [], family="remap_edge", params={"v0": v0, "v1": v1}, abs_cons=False, group="O4-remap")
    for k in range(3):
        q = dg.remap_points_shared_vertex(P, k)
        if q is None:
            ctx.violation("O4/vertex/%d" % k, "remap_vertex", {"k": k}, "returned None")
            continue
        f = lambda a, b: [z3.substitute(term(q[d, 0]), (s, rv(F(a))), (t, rv(F(b)))) for d in range(2)]
        f00, f10, f01 = f(0, 0), f(1, 0), f(0, 1)
        affine = z3.And(*[term(q[d, 0]) == f00[d] + s * (f10[d] - f00[d]) + t * (f01[d] - f00[d]) for d in range(2)])
        isv = lambda p: z3.Or(*[z3.And(p[0] == rv(r[0]), p[1] == rv(r[1])) for r in ref])
        distinct = z3.And(z3.Or(f10[0] != f01[0], f10[1] != f01[1]), z3.Or(f10[0] != f00[0], f10[1] != f00[1]), z3.Or(f01[0] != f00[0], f01[1] != f00[1]))
        claim = z3.And(affine, f00[0] == rv(ref[k][0]), f00[1] == rv(ref[k][1]), isv(f10), isv(f01), distinct)
        ctx.prove("O4/vertex/%d" % k, claim, [], family="remap_vertex", params={"k": k}, abs_cons=False, group="O4-remap")
    q = dg.remap_points_shared_edge(P, 1, 2)
    ctx.expect_sat("twin/remap-edge-12-is-not-identity", [z3.Or(term(q[0, 0]) != s, term(q[1, 0]) != t)], kind="twin", abs_cons=False, group="twin")
    ctx.concrete("remap", "remap", {})
    ctx.stub("api.integration.gauss.rule replaced by symbolic nodes/weights for the O3-inside obligations only")
    ctx.assume("exactness is read as |Q(p)-I(p)| <= 5e-14*sum|c_k| over the monomial coefficients c_k (the tables are decimal literals)")


# ----------------------------------------------------------------------------- concrete side (real NumPy)
def concrete(family, params):
    import numpy as np
    from bempp_cl.api.integration import triangle_gauss as tg, gauss as g1, duffy_galerkin as dg

    tol = float(TOL)
    if family == "tri_exact":
        k = params["order"]
        p, w = tg.rule(k)
        P0 = [F(float(x)) for x in p[0]]
        P1 = [F(float(x)) for x in p[1]]
        W = [F(float(x)) for x in w]
        mx = max(abs(sum(wi * x**a * y**b for wi, x, y in zip(W, P0, P1)) - I2(a, b)) for a in range(k + 1) for b in range(k + 1 - a))
        return {"gap": 1.0 if mx > TOL else 0.0, "max_err": float(mx), "tolerance": float(TOL), "key": "tri_exact/%d" % k}
    if family == "gauss_exact":
        k = params["order"]
        x, w = g1.rule(k)
        X = [F(float(v)) for v in x]
        W = [F(float(v)) for v in w]
        mx = max(abs(sum(wi * xi**d for wi, xi in zip(W, X)) - F(1, d + 1)) for d in range(2 * k))
        return {"gap": 1.0 if mx > TOL else 0.0, "max_err": float(mx), "tolerance": float(TOL), "key": "gauss_exact/%d" % k}
    if family == "duffy_exact":
        k, adj = params["order"], params["adj"]
        pt, ps, w = dg.rule(k, adj)
        fac = {"coincident": 6, "edge_adjacent": 5, "vertex_adjacent": 2}[adj]
        if len(w) != fac * k**4 or dg.number_of_quadrature_points(k, adj) != len(w):
            return {"gap": 1.0, "key": "duffy_npoints/%s/%d" % (adj, k)}
        deg = max(0, 2 * k - 4)
        mx = 0.0
        if k >= 2:
            for a, b, c, d in itertools.product(range(deg + 1), repeat=4):
                if a + b + c + d > deg:
                    continue
                q = float(np.sum(w * pt[0] ** a * pt[1] ** b * ps[0] ** c * ps[1] ** d))
                mx = max(mx, abs(q - float(I2(a, b) * I2(c, d))))
        return {"gap": 1.0 if mx > 1e-12 else 0.0, "max_err": mx, "tolerance": 1e-12, "key": "duffy_exact/%s/%d" % (adj, k)}
    if family == "duffy_count":
        adj = params["adj"]
        fac = {"coincident": 6, "edge_adjacent": 5, "vertex_adjacent": 2}[adj]
        bad = [k for k in range(1, 8) if dg.number_of_quadrature_points(k, adj) != fac * k**4]
        return {"gap": 1.0 if bad else 0.0, "bad": bad, "key": "duffy_count/%s" % adj}
    if family == "duffy_inside":
        adj = params["adj"]
        worst = 0.0
        for k in range(1, 6):
            pt, ps, w = dg.rule(k, adj)
            for arr in (pt, ps):
                worst = max(worst, float(np.max(-arr[0])), float(np.max(-arr[1])), float(np.max(arr[0] + arr[1] - 1)))
            worst = max(worst, float(np.max(-w)))
        return {"gap": 1.0 if worst > 1e-12 else 0.0, "worst": worst, "key": "duffy_inside/%s" % adj}
    if family == "lookup":
        nm = params["rule"]
        fn, hi = (tg.rule, 20) if nm == "triangle" else (g1.rule, 30)
        bad = []
        for k in list(range(-3, hi + 5)) + [10**6, -(10**6)]:
            try:
                p, w = fn(k)
                ok = 1 <= k <= hi and (len(w) == (tg.points_per_order[k - 1] if nm == "triangle" else k)) and np.shape(p)[-1] == len(w)
            except ValueError:
                ok = not (1 <= k <= hi)
            except Exception:
                ok = False
            if not ok:
                bad.append(k)
        return {"gap": 1.0 if bad else 0.0, "bad_orders": bad, "key": "lookup/%s" % nm}
    if family in ("remap_edge", "remap_vertex", "remap"):
        ref = np.array([[0.0, 1, 0], [0, 0, 1]])
        bad = []
        P = np.array([[0.0, 1, 0, 0.3], [0, 0, 1, 0.2]])
        for v0 in range(3):
            for v1 in range(3):
                if v0 == v1:
                    continue
                if family == "remap_edge" and (v0, v1) != (params["v0"], params["v1"]):
                    continue
                q = dg.remap_points_shared_edge(P.copy(), v0, v1)
                o = 3 - v0 - v1
                exp = ref[:, [v0]] + (ref[:, [v1]] - ref[:, [v0]]) * P[0] + (ref[:, [o]] - ref[:, [v0]]) * P[1]
                if not np.allclose(q, exp):
                    bad.append(("edge", v0, v1))
        for k in range(3):
            if family == "remap_vertex" and k != params["k"]:
                continue
            q = dg.remap_points_shared_vertex(P.copy(), k)
            if q is None or not np.allclose(q[:, 0], ref[:, k]) or abs(abs(np.linalg.det(np.array([q[:, 1] - q[:, 0], q[:, 2] - q[:, 0]]))) - 1) > 1e-12:
                bad.append(("vertex", k))
        return {"gap": 1.0 if bad else 0.0, "bad": bad, "key": "remap/%s" % (bad[:1] or "")}
    raise KeyError(family)
