"""C19 - grid and grid-function export/import round trip.

(a) export -> import with SYMBOLIC domain indices (ints in [0, 2^31)), meshio replaced by an in-memory
    channel that returns exactly what it was given: imported domain indices == exported ones on every path
    of the tag-selection logic; vertices / elements unchanged;
(b) exported node / element data == the requested transformation of evaluate_on_vertices /
    evaluate_on_element_centers (real and imaginary parts for complex data), for symbolic coefficients;
(c) the concrete replays go through real meshio files (.msh ASCII and binary, .vtu, .ply)."""
import itertools
import os
import time
import types
import numpy as np
import z3
from ..sym import SR, SC, SI, SB, ABS, ZERO, Explorer, term, cterm, eq_formula, Inconclusive
from ..npshim import SA, lift_arr, sym_array, isobj
from .. import world as W

LEVEL = "other"
EXPLANATION = (
    "io.export / io.import_grid executed symbolically with symbolic domain indices and coefficients; meshio is a contract stub (returns what it was given); "
    "all paths of the physical/geometrical tag logic are explored and the round-trip claims decided in LIA / polynomial arithmetic; real file formats are exercised by the concrete replays."
)
ROUNDS = ((("z3", 20), ("cvc5", 20)), (("z3", 120), ("cvc5", 120)))


class Channel:
    def __init__(self):
        self.m = None
        self.calls = []

    def write_points_cells(self, filename, points, cells, point_data=None, cell_data=None, file_format=None, binary=True, **k):
        # meshio's documented contract for the data dictionaries (meshio.Mesh.__init__ raises ValueError otherwise)
        npoints = np.shape(points)[0]
        for key, val in (point_data or {}).items():
            if np.shape(val)[0] != npoints:
                raise ValueError("meshio contract: point data %r has %d rows for %d points" % (key, np.shape(val)[0], npoints))
        for key, val in (cell_data or {}).items():
            if len(val) != len(cells):
                raise ValueError("meshio contract: Incompatible cell data %r. %d cell blocks, but %r has %d blocks." % (key, len(cells), key, len(val)))
            for blk, (_, conn) in zip(val, cells):
                if np.shape(blk)[0] != np.shape(conn)[0]:
                    raise ValueError("meshio contract: cell data %r block has %d rows for %d cells" % (key, np.shape(blk)[0], np.shape(conn)[0]))
        self.m = (points, cells, point_data, cell_data)
        self.calls.append({"file_format": file_format, "binary": binary})

    def read(self, filename):
        points, cells, pd, cd = self.m
        m = types.SimpleNamespace()
        m.points = points
        m.cells_dict = {"triangle": cells[0][1]}
        m.cell_data_dict = {k: {"triangle": np.asarray(v, dtype=object)[0] if isobj(v) or not isinstance(v, np.ndarray) else v[0]} for k, v in (cd or {}).items()}
        m.point_data = pd
        return m


def run(ctx):
    import bempp_cl.api as b
    import bempp_cl.api.grid.io as io
    import bempp_cl.api.grid.grid as gg

    ctx.bound("domain indices", "3 elements with arbitrary symbolic domain indices in [0, 2^31) (Gmsh tags are signed 32-bit)")
    ctx.bound("data export", "P1 (node) and DP0 (element) functions with symbolic real/complex coefficients on T5/T4; transformations None, real, imag, abs_squared, abs, log_abs, callable")
    ctx.out("meshio's own writers and readers (exercised only by the concrete replays); indices >= 2^31")
    ctx.stub("meshio.write_points_cells / meshio.read -> in-memory channel returning the same points, cells, cell_data, point_data")
    ctx.stub("Grid constructor inside import_grid -> recorder of its arguments")
    ch = Channel()
    rec = {}

    class FakeGrid:
        def __init__(self, vertices, elements, domain_indices=None, **k):
            rec["g"] = (vertices, elements, domain_indices)

    # ---------------- (a) domain indices
    t0 = time.time()
    N = 3
    d = [z3.Int("d%d" % i) for i in range(N)]
    v, e, _ = W.mesh("T9")
    e = e[:, :N]
    g = b.Grid(np.asarray(v, dtype=float), np.asarray(e))
    dom = np.empty(N, dtype=object)
    for i in range(N):
        dom[i] = SI(d[i])
    dom = dom.view(SA)
    dom.decl = "uint32"
    g._domain_indices = dom
    assume = [z3.And(x >= 0, x < 2**31) for x in d]
    for binary in (True, False):
        def rt():
            with W.patched((io, "_meshio", ch), (gg, "Grid", FakeGrid)):
                io.export("x.msh", grid=g, write_binary=binary)
                io.import_grid("x.msh")
            return rec["g"]

        ex = Explorer(assume=assume, max_paths=3000)
        res = ex.run(rt)
        ctx.paths += ex.paths
        pcs = []
        for pi, (pc, out, exc) in enumerate(res):
            pcf = z3.And(*pc) if pc else z3.BoolVal(True)
            pcs.append(pcf)
            params = {"binary": binary, "ext": ".msh"}
            if exc is not None:
                ctx.prove("a/%s/path%d/raises" % ("bin" if binary else "ascii", pi), z3.BoolVal(False), assume + [pcf], family="roundtrip", params=params, abs_cons=False, group="a-domain-indices")
                continue
            vv, ee, dd = out
            if dd is None:
                claim = z3.BoolVal(False)
            else:
                claim = z3.And(*[SI.term(dd[i]) == d[i] for i in range(N)])
            tf = lambda a: np.array([float(x) for x in np.asarray(a, dtype=object).ravel()]).reshape(np.shape(a))
            same_mesh = bool(np.array_equal(np.asarray(ee, dtype=int), g.elements)) and bool(np.allclose(tf(vv), tf(g.vertices)))
            ctx.prove("a/%s/path%d" % ("bin" if binary else "ascii", pi), z3.And(claim, z3.BoolVal(same_mesh)), assume + [pcf], family="roundtrip", params=params, abs_cons=False, group="a-domain-indices")
        ctx.prove("a/%s/paths-cover" % ("bin" if binary else "ascii"), z3.Or(pcs), assume, family="roundtrip", params={"binary": binary, "ext": ".msh"}, abs_cons=False, group="a-domain-indices")
        ctx.sample({"a": "binary=%s" % binary, "paths": len(res), "meshio_call": ch.calls[-1] if ch.calls else None})
    ctx.expect_sat("a/witness-non-contiguous", assume + [d[0] == 7, d[1] == 0, d[2] == 2**31 - 1], abs_cons=False, group="a-domain-indices")
    ctx.twin("twin/indices-shifted", z3.And(*[d[i] + 1 == d[i] for i in range(N)]), assume, abs_cons=False)
    ctx.encode_secs["a"] = round(time.time() - t0, 2)

    # ---------------- (b) exported data
    t0 = time.time()
    sq = lambda x: x * x
    for ci, (mesh, spc, dtype_, cplx) in enumerate([("T5", ("P", 1, {"include_boundary_dofs": True}), "node", True), ("T4", ("DP", 0, {}), "element", True), ("T5", ("P", 1, {"include_boundary_dofs": True}), "element", False), ("T4", ("DP", 0, {}), "node", False), ("T4", ("RWG", 0, {}), "element", True), ("T4", ("RWG", 0, {}), "node", False)]):
        ABS.reset()
        v, e, dm = W.mesh(mesh)
        g = b.Grid(np.asarray(v, dtype=float), np.asarray(e), np.asarray(dm, dtype="uint32"))
        sp = b.function_space(g, spc[0], spc[1], **spc[2])
        c = sym_array("c%d" % ci, (sp.global_dof_count,), complex_=cplx)
        f = b.GridFunction(sp, coefficients=c)
        base = f.evaluate_on_vertices() if dtype_ == "node" else f.evaluate_on_element_centers()  # (1, n)
        for tname in (None, "real", "imag", "abs_squared", "abs", "log_abs", "callable"):
            tr = (lambda a: a * 3) if tname == "callable" else tname
            params = {"mesh": mesh, "space": list(spc), "data_type": dtype_, "transformation": tname, "complex": cplx}
            try:
                with W.patched((io, "_meshio", ch)):
                    io.export("y.vtu", grid_function=f, data_type=dtype_, transformation=tr)
            except (ValueError, TypeError, KeyError, IndexError) as ex_:
                ctx.violation("b/%s/%s/%s/%s/raises" % (spc[0], dtype_, "complex" if cplx else "real", tname), "data", params, "export raised %s: %s" % (type(ex_).__name__, str(ex_)[:200]))
                continue
            points, cells, pd, cd = ch.m
            n = base.shape[1]
            dim = base.shape[0]
            claims = []
            store = pd if dtype_ == "node" else cd
            for k in range(n):
                vals = [SC.lift(base[dd, k]) for dd in range(dim)]
                mag2 = ZERO
                for val in vals:
                    mag2 = mag2 + val.re * val.re + val.im * val.im
                if tname is None:
                    exp = vals
                elif tname == "real":
                    exp = [SC(val.re, ZERO) for val in vals]
                elif tname == "imag":
                    exp = [SC(val.im, ZERO) for val in vals]
                elif tname == "abs_squared":
                    exp = [SC(mag2, ZERO)]
                elif tname == "abs":
                    exp = [SC(mag2.sqrt_of_sum_of_squares(), ZERO)]
                elif tname == "log_abs":
                    exp = [SC(mag2.sqrt_of_sum_of_squares()._fn("log"), ZERO)]
                else:
                    exp = [val * 3 for val in vals]
                is_c = cplx and tname in (None, "callable")
                m = len(exp)
                try:
                    if is_c:
                        gr, gi = np.asarray(store["real"], dtype=object), np.asarray(store["imag"], dtype=object)
                        if gr.size != n * m or gi.size != n * m:
                            raise IndexError
                        gr, gi = gr.reshape(n, m), gi.reshape(n, m)
                        got = [SC(SR.lift(gr[k, j]), SR.lift(gi[k, j])) for j in range(m)]
                    else:
                        gd_ = np.asarray(store["data"], dtype=object)
                        if gd_.size != n * m:
                            raise IndexError
                        got = [SC.lift(gd_.reshape(n, m)[k, j]) for j in range(m)]
                except (KeyError, TypeError, IndexError) as ex_:
                    claims.append(z3.BoolVal(False))
                    continue
                for gv, ev in zip(got, exp):
                    claims.append(z3.And(cterm(gv)[0] == cterm(ev)[0], cterm(gv)[1] == cterm(ev)[1]))
            ctx.prove("b/%s/%s/%s/%s" % (spc[0], dtype_, "complex" if cplx else "real", tname), z3.And(*claims), [], family="data", params=params, abs_cons="cone", group="b-data-" + dtype_)
        # domain indices written for non-gmsh formats
        _, _, _, cd = ch.m
        ok = "domain_index" in cd and list(np.asarray(cd["domain_index"]).reshape(-1)) == list(dm)
        if not ok:
            ctx.violation("b/domain_index-cell-data/%d" % ci, "data", {"mesh": mesh}, "cell_data['domain_index'] missing or wrong")
    ctx.encode_secs["b"] = round(time.time() - t0, 2)
    for ext, binary in ((".msh", True), (".msh", False), (".vtu", True), (".ply", True)):
        ctx.concrete("roundtrip%s%s" % (ext, "" if binary else "-ascii"), "roundtrip", {"ext": ext, "binary": binary})
    ctx.concrete("data", "data", {})


# ----------------------------------------------------------------------------- concrete side: real meshio files
def concrete(family, params):
    import tempfile
    import meshio
    import bempp_cl.api as b

    v, e, _ = W.mesh("T7")
    v, e = np.asarray(v, dtype=float), np.asarray(e)
    tmp = tempfile.mkdtemp(prefix="c19-", dir=os.path.join(os.path.dirname(os.path.dirname(os.path.dirname(os.path.abspath(__file__)))), "scratch"))
    try:
        if family == "roundtrip":
            ext, binary = params.get("ext", ".msh"), params.get("binary", True)
            problems = []
            cases = {"non-contiguous": [7, 7, 0, 3, 2**31 - 1, 3], "contiguous": [0, 1, 2, 0, 1, 2], "all-zero": [0] * 6, "all-equal-nonzero": [5] * 6, "one-zero": [0, 4, 4, 4, 4, 4]}
            model = params.get("_model") or {}
            if model and all(("d%d" % i) in model for i in range(3)):
                try:
                    dd = [int(model["d%d" % i]) for i in range(3)]
                    cases["solver-model"] = dd + dd
                except ValueError:
                    pass
            for cname, dom in cases.items():
                g = b.Grid(v, e, np.asarray(dom, dtype="uint32"))
                fn = os.path.join(tmp, "g" + ext)
                b.export(fn, grid=g, write_binary=binary)
                g2 = b.import_grid(fn)
                if not (np.allclose(g2.vertices, g.vertices) and np.array_equal(g2.elements, g.elements)):
                    problems.append(cname + ": vertices/elements")
                if ext == ".msh" and list(g2.domain_indices) != list(g.domain_indices):
                    problems.append(cname + ": domain indices %s -> %s" % (dom, [int(x) for x in g2.domain_indices]))
            key = "roundtrip/%s/%s" % (ext, "domain-indices/all-zero" if problems and all(p.startswith(("all-zero", "solver-model")) for p in problems) else (problems[0].split(":")[0] if problems else ""))
            return {"gap": 1.0 if problems else 0.0, "problems": problems, "key": key}
        if family == "data":
            g = b.Grid(v, e)
            p1 = b.function_space(g, "P", 1)
            dp0 = b.function_space(g, "DP", 0)
            rng = np.random.RandomState(0)
            worst = 0.0
            rwg = b.function_space(g, "RWG", 0)
            worst_case = None
            for sp, dt in ((p1, "node"), (dp0, "element"), (p1, "element"), (rwg, "element"), (rwg, "node")):
                for cplx in (False, True):
                    c = rng.rand(sp.global_dof_count) + (1j * rng.rand(sp.global_dof_count) if cplx else 0)
                    f = b.GridFunction(sp, coefficients=c)
                    base = f.evaluate_on_vertices() if dt == "node" else f.evaluate_on_element_centers()
                    nrm2 = lambda a: np.sum(np.abs(a) ** 2, axis=0, keepdims=True)
                    for tname, fn_ in ((None, lambda a: a), ("real", np.real), ("imag", np.imag), ("abs", lambda a: np.sqrt(nrm2(a))), ("abs_squared", nrm2), ("log_abs", lambda a: np.log(np.sqrt(nrm2(a))))):
                        path = os.path.join(tmp, "f.vtu")
                        try:
                            b.export(path, grid_function=f, data_type=dt, transformation=tname)
                        except Exception as ex_:
                            return {"gap": 1.0, "raised": "%s: %s" % (type(ex_).__name__, str(ex_)[:200]), "case": [dt, cplx, tname], "key": "data/%s/%s/raises" % (dt, "complex" if cplx else "real")}
                        m = meshio.read(path)
                        store = m.point_data if dt == "node" else {k: val[0] for k, val in m.cell_data.items()}
                        exp = np.asarray(fn_(base)).T
                        if np.iscomplexobj(exp):
                            got = np.asarray(store["real"]).reshape(exp.shape) + 1j * np.asarray(store["imag"]).reshape(exp.shape)
                        else:
                            got = np.asarray(store["data"]).reshape(exp.shape)
                        fin = np.isfinite(exp)
                        gap_ = float(np.max(np.abs(got[fin] - exp[fin]))) if fin.any() else 0.0
                        if gap_ > worst:
                            worst, worst_case = gap_, [sp.identifier, dt, "complex" if cplx else "real", tname]
            return {"gap": worst if worst > 1e-10 else 0.0, "worst_case": worst_case, "key": "data/%s" % ("/".join(str(x) for x in worst_case) if worst > 1e-10 else "")}
    finally:
        import shutil

        shutil.rmtree(tmp, ignore_errors=True)
    raise KeyError(family)
