"""C06 - hypersingular and Maxwell electric-field operators equal their single-layer decompositions.

W == sum_c C_c' V0 C_c - k^2 sum_c N_c' V1 N_c   and   E == -ik sum_c R_c' V1 R_c - (1/(ik)) D' V0 D,
entrywise, with V0/V1 assembled by the same public API on DP0/DP1 with the same uninterpreted kernel and
C, N, R, D written by the harness from the geometry arrays; W.1 = 0 on closed grids; symmetry of the
regular (non-adjacent) blocks under a symmetric kernel."""
import time
from fractions import Fraction as F
import numpy as np
import z3
from ..sym import SR, SC, ABS, ZERO, Explorer, eq_formula
from ..npshim import SA, lift_arr
from .. import world as W

LEVEL = "translation_validation"
EXPLANATION = (
    "The hypersingular / electric-field assemblers and the scalar single-layer assembler (regular + singular parts, through the public API) are "
    "executed symbolically with an uninterpreted Green's function, free geometry arrays and a symbolic complex wavenumber; the decomposition "
    "identities are proved entry by entry as polynomial identities (cvc5/z3)."
)
ROUNDS = ((("cvc5", 30), ("z3", 3)), (("cvc5", 200), ("z3", 60)), (("cvc5", 600),))
REFGRAD = [[F(-1), F(1), F(0)], [F(-1), F(0), F(1)]]


def curl_maps(g, space):
    """C_c (NE x ndof): component c of the surface curl n x grad(phi) of every basis function."""
    gd = g.data()
    NE = g.number_of_elements
    C = [lift_arr(np.zeros((NE, space.global_dof_count))) for _ in range(3)]
    for el in np.flatnonzero(space.support):
        sg = gd.jac_inv_trans[el] @ lift_arr(np.array(REFGRAD, dtype=object))  # 3 x 3 (dim x fun)
        for a in range(3):
            n = gd.normals[el]
            gr = sg[:, a]
            curl = [n[1] * gr[2] - n[2] * gr[1], n[2] * gr[0] - n[0] * gr[2], n[0] * gr[1] - n[1] * gr[0]]
            j = int(space.local2global[el, a])
            for c in range(3):
                C[c][el, j] = C[c][el, j] + curl[c] * space.local_multipliers[el, a]
    return C


def normal_maps(g, space):
    """N_c (3NE x ndof): n_c times the nodal P1 coefficients (DP1 numbering 3*el + a)."""
    gd = g.data()
    NE = g.number_of_elements
    N = [lift_arr(np.zeros((3 * NE, space.global_dof_count))) for _ in range(3)]
    for el in np.flatnonzero(space.support):
        for a in range(3):
            j = int(space.local2global[el, a])
            for c in range(3):
                N[c][3 * el + a, j] = N[c][3 * el + a, j] + gd.normals[el][c] * space.local_multipliers[el, a]
    return N


def rwg_maps(g, space, nk=None, snc=False):
    """R_c (3NE x ndof): component c of the RWG function attached to every dof of `space` (an RWG space, or an SNC
    space whose functions are n x RWG: the electric-field operator tests with the underlying RWG functions) at the
    three element nodes; D (NE x ndof): its surface divergence.  Written from the definition
    f_i = m_i * l_i * (J phi_i) / ie,  div f_i = 2 m_i l_i / ie  (phi_0=(x,y-1), phi_1=(x-1,y), phi_2=(x,y))."""
    gd = g.data()
    NE = g.number_of_elements
    nodes = [(F(0), F(0)), (F(1), F(0)), (F(0), F(1))]
    ref = [lambda x, y: (x, y - 1), lambda x, y: (x - 1, y), lambda x, y: (x, y)]
    R = [lift_arr(np.zeros((3 * NE, space.global_dof_count))) for _ in range(3)]
    D = lift_arr(np.zeros((NE, space.global_dof_count)))
    pairs = [(0, 1), (2, 0), (1, 2)]
    for el in np.flatnonzero(space.support):
        v = [gd.vertices[:, int(gd.elements[i, el])] for i in range(3)]
        L = []
        for a, b_ in pairs:
            d = v[a] - v[b_]
            L.append((d[0] * d[0] + d[1] * d[1] + d[2] * d[2]).sqrt())
        J = gd.jacobians[el]
        ie = gd.integration_elements[el]
        for i in range(3):
            j = int(space.local2global[el, i])
            m = space.local_multipliers[el, i]
            for a, (x, y) in enumerate(nodes):
                p = ref[i](x, y)
                for c in range(3):
                    R[c][3 * el + a, j] = R[c][3 * el + a, j] + (J[c, 0] * p[0] + J[c, 1] * p[1]) * L[i] * m / ie
            D[el, j] = D[el, j] + m * 2 * L[i] / ie
    return R, D


def quad_sum(mats, V):
    out = None
    for M in mats:
        t = M.T @ V @ M
        out = t if out is None else out + t
    return out.view(SA)


def run(ctx):
    import bempp_cl.api as b
    import bempp_cl.core.numba_kernels as nk

    L = b.operators.boundary
    thorough = ctx.thorough
    ctx.bound("meshes", "T4, T5, T7 (<=6 elements) quick; + T6/T9 thorough")
    ctx.bound("quadrature orders", "regular 1..2, singular 1 (2 thorough)")
    ctx.bound("wavenumber", "symbolic complex k = kr + i*ki (kr != 0 on the Helmholtz path), symbolic real omega for modified Helmholtz")
    ctx.out("symmetry of singular parts (holds only up to singular-quadrature error); |k| -> 0 behaviour")
    ctx.stub("Green's function = uninterpreted (complex) function of (x, y)")
    kr, ki, om = z3.Real("kr"), z3.Real("ki"), z3.Real("omega")
    K = SC(SR(kr), SR(ki))
    seg = lambda s, **kw: dict(segments=s, **kw)
    hyp_cfgs = [
        ("laplace", "T7", {}, {}, 2, 1),
        ("helmholtz", "T7", seg([0, 2], include_boundary_dofs=True), {}, 1, 1),
        ("modified_helmholtz", "T5", {"include_boundary_dofs": True}, {"include_boundary_dofs": True}, 2, 1),
    ]
    if thorough:
        hyp_cfgs += [("helmholtz", "T6", {}, seg([1], include_boundary_dofs=True), 2, 2), ("laplace", "T9", seg([1], include_boundary_dofs=True, truncate_at_segment_edge=True), {"include_boundary_dofs": True}, 2, 2)]
    for ci, (fam, mesh, kw_trial, kw_test, oreg, osing) in enumerate(hyp_cfgs):
        t0 = time.time()
        ABS.reset()
        g = W.symgrid(mesh, tag="h%d" % ci)
        W.set_orders(oreg, osing)
        cplx = fam == "helmholtz"
        uf = W.UFKernel("G%d" % ci, normals="", complex_=cplx)
        kname = {"laplace": "laplace_single_layer", "helmholtz": "helmholtz_single_layer", "modified_helmholtz": "modified_helmholtz_single_layer"}[fam]
        mod = getattr(L, fam)
        args = {"laplace": (), "helmholtz": (K,), "modified_helmholtz": (SR(om),)}[fam]

        def build():
            with W.patched(*W.install_uf([kname], uf)):
                dom = b.function_space(g, "P", 1, **kw_trial)
                dual = b.function_space(g, "P", 1, **kw_test)
                dp0 = b.function_space(g, "DP", 0)
                dp1 = b.function_space(g, "DP", 1)
                Wm = mod.hypersingular(dom, dual, dual, *args).weak_form().to_dense()
                V0 = mod.single_layer(dp0, dp0, dp0, *args).weak_form().to_dense()
                V1 = mod.single_layer(dp1, dp1, dp1, *args).weak_form().to_dense() if fam != "laplace" else None
            return dom, dual, Wm, V0, V1

        ex = Explorer(assume=[kr != 0] if fam == "helmholtz" else [], max_paths=4)
        res = ex.run(build)
        ctx.paths += ex.paths
        for pc, out, exc in res:
            if exc is not None:
                raise exc
            dom, dual, Wm, V0, V1 = out
            Ct, Cd = curl_maps(g, dual), curl_maps(g, dom)
            spec = None
            for c in range(3):
                t = Ct[c].T @ V0 @ Cd[c]
                spec = t if spec is None else spec + t
            if fam != "laplace":
                Nt, Nd = normal_maps(g, dual), normal_maps(g, dom)
                k2 = K * K if fam == "helmholtz" else -(SR(om) * SR(om))  # modified Helmholtz: k = i*omega
                for c in range(3):
                    spec = spec - (Nt[c].T @ V1 @ Nd[c]) * k2
            params = {"family": fam, "mesh": mesh, "trial": kw_trial, "test": kw_test, "regular": oreg, "singular": osing}
            n = 0
            for idx, f in W.entries_eq(Wm, spec):
                ctx.prove("hyp%d/%s/%s/%d_%d" % (ci, fam, mesh, idx[0], idx[1]), f, list(pc), family="hyp_decomp", params=params, abs_cons=False, group="hyp%d-%s-%s" % (ci, fam, mesh))
                n += 1
            if ci == 1:
                # negative twin: with +k^2 instead of -k^2 the identity must fail
                spec_bad = spec + (Nt[0].T @ V1 @ Nd[0]) * k2 * 2
                ctx.twin("twin/hyp-wrong-sign-of-k2", z3.And(*[f for _, f in W.entries_eq(Wm, spec_bad)]), list(pc), abs_cons=False)
            ctx.sample({"config": params, "shape": list(np.shape(Wm)), "entries": n, "encode_s": round(time.time() - t0, 2)})
            if thorough or ci == 1:
                ctx.concrete("hyp_decomp/%d" % ci, "hyp_decomp", params)
            ctx.log("hyp%d %s %s: %d entries %.1fs" % (ci, fam, mesh, n, time.time() - t0))

    # ---- W.1 = 0 on closed grids (Laplace)
    for mesh in ["T4"] + (["T6"] if thorough else []):
        ABS.reset()
        g = W.symgrid(mesh, tag="c" + mesh)
        W.set_orders(2, 1)
        uf = W.UFKernel("Gc" + mesh, normals="")
        with W.patched(*W.install_uf(["laplace_single_layer"], uf)):
            p1 = b.function_space(g, "P", 1)
            Wm = L.laplace.hypersingular(p1, p1, p1).weak_form().to_dense()
        for i in range(Wm.shape[0]):
            s = ZERO
            for j in range(Wm.shape[1]):
                s = s + Wm[i, j]
            ctx.prove("rowsum/%s/%d" % (mesh, i), eq_formula(s, ZERO), [], family="rowsum", params={"mesh": mesh}, abs_cons=False, group="rowsum-" + mesh)
        ctx.twin("twin/rowsum-without-last-column-" + mesh, eq_formula(sum(Wm[0, j] for j in range(Wm.shape[1] - 1)), ZERO), [], abs_cons=False)
        if thorough:
            ctx.concrete("rowsum/" + mesh, "rowsum", {"mesh": mesh})

    # ---- EFIE decomposition
    # (mesh, trial (RWG) options, test (SNC) options, regular order, singular order): test and trial spaces are chosen
    # independently so that their multiplier / dof layouts differ on pairs handled by the regular AND the singular part
    efie_cfgs = [("T7", {"include_boundary_dofs": True}, {}, 2, 1)]
    if thorough:
        efie_cfgs += [("T4", {}, {}, 2, 2), ("T9", seg([1, 2], include_boundary_dofs=True), {"include_boundary_dofs": True}, 1, 1), ("T7", seg([0, 2]), {"include_boundary_dofs": True}, 1, 1)]
    for ci, (mesh, kw, kwt, oreg, osing) in enumerate(efie_cfgs):
        t0 = time.time()
        ABS.reset()
        g = W.symgrid(mesh, tag="e%d" % ci)
        W.set_orders(oreg, osing)
        uf = W.UFKernel("Ge%d" % ci, normals="", complex_=True)

        def build():
            with W.patched(*W.install_uf(["helmholtz_single_layer"], uf)):
                rwg = b.function_space(g, "RWG", 0, **kw)
                snc = b.function_space(g, "SNC", 0, **kwt)
                dp0 = b.function_space(g, "DP", 0)
                dp1 = b.function_space(g, "DP", 1)
                E = L.maxwell.electric_field(rwg, rwg, snc, K).weak_form().to_dense()
                V0 = L.helmholtz.single_layer(dp0, dp0, dp0, K).weak_form().to_dense()
                V1 = L.helmholtz.single_layer(dp1, dp1, dp1, K).weak_form().to_dense()
            return rwg, snc, E, V0, V1

        ex = Explorer(assume=[kr != 0], max_paths=4)
        res = ex.run(build)
        ctx.paths += ex.paths
        for pc, out, exc in res:
            if exc is not None:
                raise exc
            rwg, snc, E, V0, V1 = out
            Rd, Dd = rwg_maps(g, rwg)
            # the test functions of the electric field operator are the RWG functions underlying the SNC test space
            Rt, Dt = rwg_maps(g, snc)
            ik = SC(ZERO, SR.const(1)) * K
            spec = None
            for c in range(3):
                t = Rt[c].T @ V1 @ Rd[c]
                spec = t if spec is None else spec + t
            spec = spec * (-ik) - (Dt.T @ V0 @ Dd) * (SC(SR.const(1), ZERO) / ik)
            params = {"mesh": mesh, "kw": kw, "kw_test": kwt, "regular": oreg, "singular": osing}
            n = 0
            for idx, f in W.entries_eq(E, spec):
                ctx.prove("efie%d/%s/%d_%d" % (ci, mesh, idx[0], idx[1]), f, list(pc), family="efie_decomp", params=params, abs_cons=False, group="efie%d-%s" % (ci, mesh))
                n += 1
            ctx.sample({"config": params, "shape": list(np.shape(E)), "entries": n})
            ctx.concrete("efie_decomp/%d" % ci, "efie_decomp", params)
            ctx.log("efie%d %s: %d entries %.1fs" % (ci, mesh, n, time.time() - t0))

    # ---- symmetry of the regular block under a symmetric kernel (elements of two different components)
    ABS.reset()
    g = W.symgrid("T7", tag="s")
    W.set_orders(2, 1)
    uf = W.UFKernel("Gs", normals="", complex_=True, symmetric=True)
    with W.patched(*W.install_uf(["helmholtz_single_layer"], uf)):
        rwg = b.function_space(g, "RWG", 0, include_boundary_dofs=True)
        snc = b.function_space(g, "SNC", 0, include_boundary_dofs=True)
        E = L.maxwell.electric_field(rwg, rwg, snc, 1.3 + 0.4j).weak_form().to_dense()
    comp = np.zeros(rwg.global_dof_count, dtype=int)
    for el in range(g.number_of_elements):
        for i in range(3):
            if rwg.local_multipliers[el, i] != 0:
                comp[rwg.local2global[el, i]] = 0 if el < 4 else 1
    n = 0
    for i in range(E.shape[0]):
        for j in range(E.shape[1]):
            if comp[i] == 0 and comp[j] == 1:
                ctx.prove("sym/efie/%d_%d" % (i, j), eq_formula(E[i, j], E[j, i]), [], family="efie_sym", params={"mesh": "T7"}, abs_cons=False, group="sym-efie")
                n += 1
    ctx.sample({"symmetry": "EFIE cross-component block on T7", "entries": n})
    if thorough:
        ctx.concrete("efie_sym", "efie_sym", {"mesh": "T7"})


# ----------------------------------------------------------------------------- concrete side (JIT)
def _grid(b, name):
    v, e, d = W.mesh(name)
    return b.Grid(np.asarray(v, dtype=float), np.asarray(e), np.asarray(d, dtype="uint32"))


def concrete(family, params):
    import bempp_cl.api as b
    import bempp_cl.core.numba_kernels as nk

    L = b.operators.boundary
    g = _grid(b, params["mesh"])
    gd = g.data()
    b.GLOBAL_PARAMETERS.quadrature.regular = params.get("regular", 2)
    b.GLOBAL_PARAMETERS.quadrature.singular = params.get("singular", 1)
    NE = g.number_of_elements
    refgrad = np.array([[-1, 1, 0], [-1, 0, 1.0]])
    if family == "hyp_decomp":
        fam = params["family"]
        k = {"laplace": None, "helmholtz": 1.3 + 0.4j, "modified_helmholtz": 0.7}[fam]
        args = () if k is None else (k,)
        mod = getattr(L, fam)
        dom = b.function_space(g, "P", 1, **params["trial"])
        dual = b.function_space(g, "P", 1, **params["test"])
        dp0 = b.function_space(g, "DP", 0)
        dp1 = b.function_space(g, "DP", 1)
        Wm = mod.hypersingular(dom, dual, dual, *args).weak_form().to_dense()
        V0 = mod.single_layer(dp0, dp0, dp0, *args).weak_form().to_dense()

        def cm(space):
            C = [np.zeros((NE, space.global_dof_count)) for _ in range(3)]
            N = [np.zeros((3 * NE, space.global_dof_count)) for _ in range(3)]
            for el in np.flatnonzero(space.support):
                sg = gd.jac_inv_trans[el] @ refgrad
                for a in range(3):
                    curl = np.cross(gd.normals[el], sg[:, a])
                    j = space.local2global[el, a]
                    for c in range(3):
                        C[c][el, j] += curl[c] * space.local_multipliers[el, a]
                        N[c][3 * el + a, j] += gd.normals[el][c] * space.local_multipliers[el, a]
            return C, N

        Ct, Nt = cm(dual)
        Cd, Nd = cm(dom)
        spec = sum(Ct[c].T @ V0 @ Cd[c] for c in range(3))
        if k is not None:
            V1 = mod.single_layer(dp1, dp1, dp1, *args).weak_form().to_dense()
            k2 = k * k if fam == "helmholtz" else -(k * k)
            spec = spec - k2 * sum(Nt[c].T @ V1 @ Nd[c] for c in range(3))
        gap = float(np.max(np.abs(Wm - spec)) / max(np.max(np.abs(spec)), 1e-300))
        return {"gap": gap if gap > 1e-10 else 0.0, "max_rel_diff": gap, "key": "hyp_decomp/%s/%s" % (fam, params["mesh"])}
    if family == "rowsum":
        p1 = b.function_space(g, "P", 1)
        Wm = L.laplace.hypersingular(p1, p1, p1).weak_form().to_dense()
        gap = float(np.max(np.abs(Wm.sum(axis=1))) / np.max(np.abs(Wm)))
        return {"gap": gap if gap > 1e-10 else 0.0, "max_rel_rowsum": gap, "key": "rowsum/%s" % params["mesh"]}
    if family in ("efie_decomp", "efie_sym"):
        k = 1.3 + 0.4j
        kw = params.get("kw", {"include_boundary_dofs": True})
        rwg = b.function_space(g, "RWG", 0, **kw)
        snc = b.function_space(g, "SNC", 0, **params.get("kw_test", kw))
        E = L.maxwell.electric_field(rwg, rwg, snc, k).weak_form().to_dense()
        if family == "efie_sym":
            comp = np.zeros(rwg.global_dof_count, dtype=int)
            for el in range(NE):
                for i in range(3):
                    if rwg.local_multipliers[el, i] != 0:
                        comp[rwg.local2global[el, i]] = 0 if el < 4 else 1
            m = np.outer(comp == 0, comp == 1)
            gap = float(np.max(np.abs((E - E.T)[m])) / np.max(np.abs(E)))
            return {"gap": gap if gap > 1e-10 else 0.0, "key": "efie_sym"}
        dp0 = b.function_space(g, "DP", 0)
        dp1 = b.function_space(g, "DP", 1)
        V0 = L.helmholtz.single_layer(dp0, dp0, dp0, k).weak_form().to_dense()
        V1 = L.helmholtz.single_layer(dp1, dp1, dp1, k).weak_form().to_dense()
        nodes = np.array([[0, 1, 0], [0, 0, 1.0]])
        ref = [np.array([nodes[0], nodes[1] - 1]), np.array([nodes[0] - 1, nodes[1]]), np.array([nodes[0], nodes[1]])]

        def maps(space):
            nd = space.global_dof_count
            R = [np.zeros((3 * NE, nd)) for _ in range(3)]
            D = np.zeros((NE, nd))
            for el in np.flatnonzero(space.support):
                v = [gd.vertices[:, gd.elements[i, el]] for i in range(3)]
                Ln = [np.linalg.norm(v[0] - v[1]), np.linalg.norm(v[2] - v[0]), np.linalg.norm(v[1] - v[2])]
                for i in range(3):
                    j = space.local2global[el, i]
                    m = space.local_multipliers[el, i]
                    vals = gd.jacobians[el] @ ref[i] * Ln[i] * m / gd.integration_elements[el]
                    for a in range(3):
                        for c in range(3):
                            R[c][3 * el + a, j] += vals[c, a]
                    D[el, j] += m * 2 * Ln[i] / gd.integration_elements[el]
            return R, D

        Rd, Dd = maps(rwg)
        Rt, Dt = maps(snc)
        spec = -1j * k * sum(Rt[c].T @ V1 @ Rd[c] for c in range(3)) - (1 / (1j * k)) * (Dt.T @ V0 @ Dd)
        gap = float(np.max(np.abs(E - spec)) / np.max(np.abs(spec)))
        return {"gap": gap if gap > 1e-10 else 0.0, "max_rel_diff": gap, "key": "efie_decomp/%s" % params["mesh"]}
    raise KeyError(family)
