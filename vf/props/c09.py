"""C09 - function spaces are conforming and their DOF maps are coherent.

(i)   conformity across an interior edge, for every consistently oriented local numbering of the two triangles and
      every vertex position (symbolic coordinates), every point of the edge (symbolic parameter) and every basis
      function: P1 values agree, RWG normal components agree, SNC tangential components agree (the functions are
      the ones returned by the public space.evaluate);
(ii)  partition of unity: sum of all basis functions == 1 at a symbolic local point of every element, through
      GridFunction(space, ones).evaluate, for DP0, P1, DUAL0, DUAL1 on closed meshes; dual basis functions take the
      documented nodal values (1 at the own barycentre / vertex, 1/2 at edge midpoints, 1/n at n-valent vertices);
(iii) local2global / global2local mutually inverse on non-zero multipliers; every DOF is attached to one entity
      (element / vertex / edge) and distinct DOFs to distinct entities;
(iv)  global_dof_count == number of selected entities, with the support mask and the include_boundary_dofs /
      truncate_at_segment_edge flags SYMBOLIC booleans: every path of the real constructors over these booleans is
      explored and on every path the count is compared with an independently written counting formula (z3 LIA)."""
import itertools
import time
from fractions import Fraction as F
import numpy as np
import z3
from ..sym import SR, SC, ABS, MODE, ZERO, ONE, Explorer, term, eq_formula
from ..npshim import SA, lift_arr, sym_array
from .. import world as W

LEVEL = "other"
EXPLANATION = (
    "Conformity is decided on the real space.evaluate with symbolic vertex coordinates and a symbolic point of the shared edge (polynomial identities); "
    "partition of unity and dual nodal values with a symbolic local point; DOF-map coherence and DOF counts on every path of the real constructors over a "
    "symbolic support mask and symbolic option flags, against counting formulas written from the documentation (z3 LIA)."
)
ROUNDS = ((("z3", 20), ("cvc5", 20)), (("z3", 120), ("cvc5", 120)), (("z3", 400), ("cvc5", 400)))
REF = [(F(0), F(0)), (F(1), F(0)), (F(0), F(1))]


def cross(a, c):
    return [a[1] * c[2] - a[2] * c[1], a[2] * c[0] - a[0] * c[2], a[0] * c[1] - a[1] * c[0]]


def dot(a, c):
    return a[0] * c[0] + a[1] * c[1] + a[2] * c[2]


def run(ctx):
    import bempp_cl.api as b

    thorough = ctx.thorough
    ctx.bound("(i) conformity", "two triangles sharing an edge, all 18 consistently oriented local numberings, symbolic vertex coordinates and edge parameter; P1, RWG, SNC")
    ctx.bound("(ii) partition of unity", "closed meshes T4 (tetrahedron) and T6 (octahedron); symbolic local point in every (barycentric) element")
    ctx.bound("(iii)(iv) DOF maps", "meshes T4 T5 T6 (T7 T9 thorough): every support mask x 4 flag combinations as symbolic booleans (all constructor paths)")
    ctx.out("BC / RBC on segments or open meshes (whole closed meshes are in: part i, coefficient-table condition)")
    ctx.out("non-manifold edges (more than two neighbours) and inconsistently oriented neighbours")
    ctx.assume("(i): integration elements satisfy ie^2 = |J0 x J1|^2 and n = (J0 x J1)/ie (the defining lemmas of the sqrt atom the real geometry code creates; decided in C11)")

    # ---------------- (i) conformity on a shared edge
    t0 = time.time()
    base_v = np.array([[0, 1, 0, 1.2], [0, 0, 1, 1.1], [0, 0, 0, 0.3]])
    s = SR(z3.Real("s"))
    rot3 = [(0, 1, 2), (1, 2, 0), (2, 0, 1)]
    flip = lambda p: (p[0], p[2], p[1])
    nconf = 0
    for both_flipped, ra, rb, swapped in [(bf_, ra_, rb_, None) for bf_ in (False, True) for ra_ in rot3 for rb_ in rot3] + [(False, rot3[0], rot3[0], [1]), (False, rot3[1], rot3[2], [1])]:
        if True:
            if True:
                skw = {} if swapped is None else {"swapped_normals": swapped}
                fam_ = "conformity" if swapped is None else "conformity_swapped"
                ta, tb = [0, 1, 2], [1, 3, 2]  # consistently oriented pair sharing edge (1, 2)
                if both_flipped:
                    ta, tb = list(flip(ta)), list(flip(tb))
                ea = [ta[i] for i in ra]
                eb = [tb[i] for i in rb]
                e_ = np.array([ea, eb]).T
                ABS.reset()
                g = W.symgrid((base_v, e_, [0, 1]), tag="cf", geometry="vertices")
                V = g._vertices
                A, Bv = 1, 2  # the shared edge's global vertices
                loc = [[el_.index(A), el_.index(Bv)] for el_ in (ea, eb)]
                pts = []
                for el in range(2):
                    pa, pb = REF[loc[el][0]], REF[loc[el][1]]
                    pts.append(lift_arr(np.array([[pa[0] * (ONE - s) + pb[0] * s], [pa[1] * (ONE - s) + pb[1] * s]], dtype=object)))
                tvec = [V[d_, Bv] - V[d_, A] for d_ in range(3)]
                Nn = []
                for el, el_ in enumerate((ea, eb)):
                    v0, v1, v2 = [[V[d_, el_[i]] for d_ in range(3)] for i in range(3)]
                    Nn.append(cross([v1[d_] - v0[d_] for d_ in range(3)], [v2[d_] - v0[d_] for d_ in range(3)]))
                NN = [dot(n_, n_) for n_ in Nn]
                name = "%s%s-%s%s" % ("f" if both_flipped else "", "".join(map(str, ra)), "".join(map(str, rb)), "" if swapped is None else "/swapped-normals-on-one-side")
                params = {"ea": ea, "eb": eb, "swapped": swapped}
                # P1
                sp = b.function_space(g, "P", 1, include_boundary_dofs=True, **skw)
                vals = [sp.evaluate(el, pts[el]) for el in range(2)]  # (1, 3, 1)
                cl = []
                for dof in range(sp.global_dof_count):
                    side = []
                    for el in range(2):
                        acc = ZERO
                        for i in range(3):
                            if int(sp.local2global[el, i]) == dof:
                                acc = acc + vals[el][0, i, 0]  # space.evaluate already applies the local multipliers
                        side.append(acc)
                    cl.append(eq_formula(side[0], side[1]))
                ctx.prove("i/P1/%s" % name, z3.And(*cl), [], family=fam_, params=dict(params, kind="P1"), abs_cons=False, group="i-P1" + ("" if swapped is None else "-swapped"))
                # RWG / SNC
                for kind in ("RWG", "SNC"):
                    sp = b.function_space(g, kind, 0, include_boundary_dofs=True, **skw)
                    gd = g.data()
                    cl = []
                    for dof in range(sp.global_dof_count):
                        side = []
                        for el in range(2):
                            fv = sp.evaluate(el, pts[el])  # (3, 3, 1) incl. multipliers
                            ie = gd.integration_elements[el]
                            acc = ZERO
                            for i in range(3):
                                if int(sp.local2global[el, i]) == dof:
                                    f = [fv[d_, i, 0] for d_ in range(3)]
                                    if kind == "RWG":
                                        # component along the in-plane edge conormal t x N (unnormalised), N = ie n
                                        acc = acc + dot(f, cross(tvec, Nn[el])) * ie
                                    else:
                                        acc = acc + dot(f, tvec) * ie * ie
                            side.append(acc)
                        # f.(t x n) resp. f.t agree  <=>  side0 / ie0^2 == side1 / ie1^2 ; ie^2 = N.N
                        cl.append(eq_formula(side[0] * NN[1], side[1] * NN[0]))
                        if len(sp.global2local[dof]) == 2:
                            inner = side  # the dof of the shared edge
                    names = ABS.atoms_in(cl)
                    hy = [a_ > 0 for a_ in ABS.sqrt_args(names)]
                    ctx.prove("i/%s/%s" % (kind, name), z3.And(*cl), hy, family=fam_, params=dict(params, kind=kind), abs_cons="cone", group="i-" + kind + ("" if swapped is None else "-swapped"))
                    if nconf in (0, 4, 11) and swapped is None:
                        # lemma for (iii'): with ARBITRARY multipliers m0, m1 on the two local functions of the shared edge the
                        # component is continuous iff m0 == -m1 (orientation-consistent pair) - this reduces conformity of any
                        # constructed space to a sign condition on its multiplier table
                        m0, m1 = SR(z3.Real("m0")), SR(z3.Real("m1"))
                        el_i = [(el, i) for el in range(2) for i in range(3) if len(sp.global2local[int(sp.local2global[el, i])]) == 2]
                        lm = lift_arr(np.array(sp.local_multipliers, dtype=object).copy())
                        (ea_, ia_), (eb_, ib_) = el_i
                        lm[ea_, ia_], lm[eb_, ib_] = m0, m1
                        saved = sp._local_multipliers
                        sp._local_multipliers = lm
                        try:
                            sd = []
                            for el, i in el_i:
                                fv = sp.evaluate(el, pts[el])
                                ie = gd.integration_elements[el]
                                f = [fv[d_, i, 0] for d_ in range(3)]
                                sd.append(dot(f, cross(tvec, Nn[el])) * ie if kind == "RWG" else dot(f, tvec) * ie * ie)
                        finally:
                            sp._local_multipliers = saved
                        cont = eq_formula(sd[0] * NN[1], sd[1] * NN[0])
                        nz = [term(NN[0]) > 0, term(NN[1]) > 0, term(dot(tvec, tvec)) > 0]
                        if kind == "RWG":
                            ctx.prove("i/%s/%s/lemma-continuous-iff-opposite-multipliers" % (kind, name), cont == (term(m0) == -term(m1)), hy + nz, family="conformity", params=dict(params, kind=kind), abs_cons="cone", group="i-lemma-" + kind)
                        else:
                            # SNC = n x RWG with the same multipliers: sufficiency is proved on the real code; necessity follows from the
                            # RWG lemma through (n x f).t == f.(t x n), proved below as a pure identity
                            ctx.prove("i/%s/%s/lemma-opposite-multipliers-give-continuity" % (kind, name), z3.Implies(term(m0) == -term(m1), cont), hy + nz, family="conformity", params=dict(params, kind=kind), abs_cons="cone", group="i-lemma-" + kind)
                    if nconf == 0 and kind == "RWG":
                        ctx.twin("twin/rwg-normal-component-jumps", eq_formula(inner[0] * NN[1], -(inner[1] * NN[0])), hy + [term(inner[0]) != 0], abs_cons="cone")
                nconf += 1
    # BC / RBC on closed meshes: every Buffa-Christiansen function is sum_k T[k, j] * (local RWG/SNC function k of the
    # barycentric grid); by the lemma above it is conforming iff the effective multipliers T[k, j] * m_k of the two local
    # functions of every barycentric edge are opposite
    for mesh in ("T4", "T6"):
        v, e, d = W.mesh(mesh)
        g = b.Grid(np.asarray(v, dtype=float), np.asarray(e))
        bg = g.barycentric_refinement
        d_ = np.asarray(d, dtype="uint32")
        gseg = b.Grid(np.asarray(v, dtype=float), np.asarray(e), d_)
        for kind, opts in (("BC", {}), ("RBC", {}), ("BC", {"segments": [int(d_[-1])]}), ("RBC", {"segments": [int(d_[-1])]})):
            if opts and (len(set(int(x) for x in d_)) < 2 or mesh != "T6"):
                continue
            ABS.reset()
            sp = b.function_space(gseg if opts else g, kind, 0, **opts)
            T = sp.dof_transformation
            T = T.toarray() if hasattr(T, "toarray") else np.asarray(T)
            l2g, mult = np.asarray(sp.local2global), np.asarray(sp.local_multipliers)
            supp = set(int(x) for x in sp.support_elements)
            for j in range(T.shape[1]):
                cl = []
                live = False
                for ed in range(bg.number_of_edges):
                    ne = [int(x) for x in bg.edge_neighbors[ed]]
                    if len(ne) != 2 or not (ne[0] in supp and ne[1] in supp):
                        continue
                    loc = [[int(x) for x in bg.element_edges[:, el]].index(ed) for el in ne]
                    c = [SR.lift(T[int(l2g[el, i]), j]) * SR.lift(mult[el, i]) for el, i in zip(ne, loc)]
                    live = live or not (c[0].is_const() and c[0].c == 0)
                    cl.append(term(c[0] + c[1]) == 0)
                ctx.prove("i/%s/%s%s/function%d" % (kind, mesh, "/segment" if opts else "", j), z3.And(*(cl + [z3.BoolVal(live)])), [], family="bc_conformity", params={"mesh": mesh, "kind": kind, "opts": opts}, abs_cons="cone", group="i-" + kind + ("-segment" if opts else ""))
        ctx.concrete("bc_conformity/%s" % mesh, "bc_conformity", {"mesh": mesh})
    fa, na, ta = [[z3.Real("%s%d" % (nm_, d_)) for d_ in range(3)] for nm_ in ("lf", "ln", "lt")]
    ctx.prove("i/lemma/triple-product", dot(cross(na, fa), ta) == dot(fa, cross(ta, na)), [], family="conformity", params={"lemma": "(n x f).t = f.(t x n)"}, abs_cons=False, group="i-lemma-SNC")
    ctx.concrete("conformity", "conformity", {})
    ctx.encode_secs["i"] = round(time.time() - t0, 2)

    # ---------------- (ii) partition of unity and dual nodal values
    t0 = time.time()
    u, v_ = SR(z3.Real("u")), SR(z3.Real("v"))
    lp = lift_arr(np.array([[u], [v_]], dtype=object))
    for mesh in (("T4", "T6") if thorough else ("T6",)):
        v, e, d = W.mesh(mesh)
        g = b.Grid(np.asarray(v, dtype=float), np.asarray(e))
        for kind, deg in (("DP", 0), ("P", 1), ("DUAL", 0), ("DUAL", 1)):
            sp = b.function_space(g, kind, deg)
            gf = b.GridFunction(sp, coefficients=lift_arr(np.ones(sp.global_dof_count)))
            cl = []
            for el in sp.support_elements:
                val = gf.evaluate(int(el), lp)
                cl.append(eq_formula(val[0, 0], ONE))
            params = {"mesh": mesh, "kind": kind, "deg": deg}
            for j in range(0, len(cl), 12):
                ctx.prove("ii/sum=1/%s/%s%d/%d" % (mesh, kind, deg, j // 12), z3.And(*cl[j : j + 12]), [], family="partition_of_unity", params=params, abs_cons=False, group="ii-unity-%s%d" % (kind, deg))
            ctx.concrete("partition_of_unity/%s/%s%d" % (mesh, kind, deg), "partition_of_unity", params)
        # segment spaces with boundary dofs included: the basis sums to one on every element of the segment
        if mesh == "T6":
            v7, e7, d7 = W.mesh("T7")
            g7 = b.Grid(np.asarray(v7, dtype=float), np.asarray(e7), np.asarray(d7, dtype="uint32"))
            for kind, deg in (("P", 1), ("DUAL", 0), ("DP", 0)):
                for seg in ([1], [0, 2]):
                    for trunc in (True, False):
                        kw = {"segments": seg}
                        if kind != "DP":
                            kw.update(include_boundary_dofs=True, truncate_at_segment_edge=trunc)
                        elif not trunc:
                            continue
                        params = {"mesh": "T7", "kind": kind, "deg": deg, "opts": kw}
                        try:
                            sp = b.function_space(g7, kind, deg, **kw)
                            gf = b.GridFunction(sp, coefficients=lift_arr(np.ones(sp.global_dof_count)))
                            fac = 6 if kind == "DUAL" else 1
                            cl = []
                            for el in range(g7.number_of_elements):
                                if int(d7[el]) in seg:
                                    for j in range(fac):
                                        cl.append(eq_formula(gf.evaluate(fac * el + j, lp)[0, 0], ONE))
                        except Exception as ex_:  # noqa: BLE001 - a constructor that raises on a documented option set is a candidate
                            ctx.violation("ii/segment-sum=1/T7/%s%d/%s/%s/raises" % (kind, deg, seg, trunc), "partition_of_unity", params, "%s: %s" % (type(ex_).__name__, str(ex_)[:160]))
                            continue
                        ctx.prove("ii/segment-sum=1/T7/%s%d/%s/trunc=%s" % (kind, deg, "".join(map(str, seg)), trunc), z3.And(*cl), [], family="partition_of_unity", params=params, abs_cons=False, group="ii-unity-segment-%s%d" % (kind, deg))
        # dual nodal values: function j at the three corners of every barycentric element
        for kind, deg in (("DUAL", 0), ("DUAL", 1)):
            bad = dual_nodal_mismatches(b, g, kind, deg)
            ctx.prove("ii/nodal/%s/%s%d" % (mesh, kind, deg), z3.BoolVal(not bad), [], family="dual_nodal", params={"mesh": mesh, "kind": kind, "deg": deg, "first_mismatches": bad[:4]}, abs_cons=False, group="ii-nodal-%s%d" % (kind, deg))
    ctx.encode_secs["ii"] = round(time.time() - t0, 2)

    # ---------------- (iii) + (iv) DOF maps and counts over symbolic support / flags
    t0 = time.time()
    nsp = 0
    meshes = ("T4", "T5", "T6") + (("T7", "T9") if thorough else ())
    for mesh in meshes:
        v, e, d = W.mesh(mesh)
        g = b.Grid(np.asarray(v, dtype=float), np.asarray(e), np.asarray(d, dtype="uint32"))
        NE, NV = g.number_of_elements, g.number_of_vertices
        els = np.asarray(g.elements)
        vert_elems = [[el for el in range(NE) if vtx in els[:, el]] for vtx in range(NV)]
        on_bnd = [bool(x) for x in g.data().vertex_on_boundary]
        edge_elems = [[int(x) for x in g.edge_neighbors[ed]] for ed in range(g.number_of_edges)]
        for kind, deg, fl in (("P", 1, True), ("RWG", 0, True), ("SNC", 0, True), ("DP", 0, False), ("DP", 1, False)):
            mv, fv, res, ex = W.explore_space_options(b, g, kind, deg, flags=fl)
            ctx.paths += ex.paths
            inc = fv[0]
            one = lambda cnd: z3.If(cnd, 1, 0)
            if kind == "P":
                sel = []
                for vtx in range(NV):
                    touch = z3.Or(*[mv[el] for el in vert_elems[vtx]])
                    interior = z3.And(*[mv[el] for el in vert_elems[vtx]]) if not on_bnd[vtx] else z3.BoolVal(False)
                    sel.append(z3.And(touch, z3.Or(inc, interior)))
                count = z3.Sum([one(c) for c in sel])
            elif kind in ("RWG", "SNC"):
                sel = []
                for ed in range(g.number_of_edges):
                    ne = edge_elems[ed]
                    if len(ne) == 2:
                        both = z3.And(mv[ne[0]], mv[ne[1]])
                        exactly_one = z3.Xor(mv[ne[0]], mv[ne[1]])
                        sel.append(z3.Or(both, z3.And(inc, exactly_one)))
                    else:
                        sel.append(z3.And(inc, mv[ne[0]]))
                count = z3.Sum([one(c) for c in sel])
            else:
                count = z3.Sum([one(m) for m in mv]) * (1 if deg == 0 else 3)
            pcs = []
            cnt_claims, empty_claims, map_claims = [], [], []
            params = {"mesh": mesh, "kind": kind, "deg": deg}
            for pi, (pc, space, exc) in enumerate(res):
                pcf = z3.And(*pc) if pc else z3.BoolVal(True)
                pcs.append(pcf)
                if exc is not None:
                    ctx.prove("iv/%s/%s%d/path%d/raises" % (mesh, kind, deg, pi), z3.BoolVal(False), [z3.Or(*mv), pcf], family="dof_count", params=dict(params, error="%s: %s" % (type(exc).__name__, str(exc)[:120])), abs_cons=False, group="iv-count-%s%d" % (kind, deg))
                    continue
                nsp += 1
                gdc = int(space.global_dof_count)
                # (iv) count of selected entities; the case "no entity selected" is a separate obligation
                cnt_claims.append(z3.Implies(z3.And(pcf, count > 0), count == gdc))
                empty_claims.append(z3.Implies(z3.And(pcf, count == 0), z3.BoolVal(gdc == 0)))
                # (iii) coherence of the maps of this path's space (concrete arrays per symbolic path)
                why = coherence(space, g, kind) or conformity_table(space, g, kind)
                map_claims.append((z3.Implies(pcf, z3.BoolVal(not why)), why))
            CH = 60
            for j_ in range(0, len(cnt_claims), CH):
                ctx.prove("iv/%s/%s%d/count/%d" % (mesh, kind, deg, j_ // CH), z3.And(*cnt_claims[j_ : j_ + CH]), [z3.Or(*mv)], family="dof_count", params=params, abs_cons=False, group="iv-count-%s%d" % (kind, deg))
                ctx.prove("iv/%s/%s%d/empty/%d" % (mesh, kind, deg, j_ // CH), z3.And(*empty_claims[j_ : j_ + CH]), [z3.Or(*mv)], family="dof_count_empty", params=params, abs_cons=False, group="iv-empty-%s%d" % (kind, deg))
                whys = [w_ for _, w_ in map_claims[j_ : j_ + CH] if w_]
                ctx.prove("iii/%s/%s%d/maps/%d" % (mesh, kind, deg, j_ // CH), z3.And(*[c_ for c_, _ in map_claims[j_ : j_ + CH]]), [z3.Or(*mv)], family="dof_maps", params=dict(params, why=whys[:3]), abs_cons=False, group="iii-maps-%s%d" % (kind, deg))
            ctx.prove("iv/%s/%s%d/paths-cover" % (mesh, kind, deg), z3.Or(pcs), [z3.Or(*mv)], family="dof_count", params=params, abs_cons=False, group="iv-cover")
    ctx.sample({"constructor_paths_checked": nsp})
    ctx.twin("twin/count-off-by-one", z3.Implies(pcf, count == int(space.global_dof_count) + 1), [z3.Or(*mv)], abs_cons=False)
    ctx.concrete("dof_count", "dof_count", {"mesh": "T5", "kind": "P", "deg": 1})
    ctx.encode_secs["iii-iv"] = round(time.time() - t0, 2)


def dual_nodal_mismatches(b, g, kind, deg):
    """list of (function, bary element, corner, got, want) where a dual basis function misses its documented nodal value."""
    bg = g.barycentric_refinement
    NV, NE = g.number_of_vertices, g.number_of_elements
    corners = [lift_arr(np.array([[F(p[0])], [F(p[1])]], dtype=object)) for p in REF]
    valence = np.bincount(np.asarray(g.elements).ravel(), minlength=NV)
    sp = b.function_space(g, kind, deg)
    bad = []
    for j in range(sp.global_dof_count):
        c = np.zeros(sp.global_dof_count)
        c[j] = 1
        gf = b.GridFunction(sp, coefficients=lift_arr(c))
        for el in sp.support_elements:
            el = int(el)
            coarse = el // 6
            for li in range(3):
                bv = int(bg.elements[li, el])
                got = gf.evaluate(el, corners[li] if deg == 1 else lift_arr(np.array([[F(1, 3)], [F(1, 3)]], dtype=object)))[0, 0]
                if deg == 1:
                    # DUAL1 function j belongs to coarse element j; classify the barycentric vertex geometrically
                    pos = np.asarray(bg.vertices[:, bv], dtype=float)
                    gv_ = np.asarray(g.vertices, dtype=float)
                    if bv < NV:
                        want = F(1, int(valence[bv])) if bv in [int(x) for x in g.elements[:, j]] else F(0)
                    elif any(np.allclose(pos, gv_[:, [int(x) for x in g.elements[:, ce]]].mean(axis=1)) for ce in range(NE)):
                        want = F(1) if np.allclose(pos, gv_[:, [int(x) for x in g.elements[:, j]]].mean(axis=1)) else F(0)
                    else:
                        want = F(0)
                        for le in range(3):
                            ed = int(g.element_edges[le, j])
                            if np.allclose(gv_[:, [int(x) for x in g.edges[:, ed]]].mean(axis=1), pos):
                                want = F(1, 2)
                else:
                    # DUAL0 function j (coarse P1 dof j = vertex j on a closed grid) is 1 on the sub-triangles touching vertex j
                    want = F(1) if int(bg.elements[0, el]) == j else F(0)
                gv = SR.lift(got)
                gv = gv.c if gv.is_const() else None
                if gv != want:
                    bad.append((j, el, li, str(gv), str(want)))
                if deg == 0:
                    break
    return bad


def conformity_table(space, g, kind):
    """'' if the multiplier table makes the space conforming across every edge whose two neighbours are in the support:
    RWG/SNC: the two local functions of the edge have opposite multipliers (lemma of part (i)) and the same dof;
    P1: the local functions of each end vertex have equal multipliers and the same dof on both sides."""
    l2g, mult = np.asarray(space.local2global), np.asarray(space.local_multipliers)
    supp = set(int(x) for x in space.support_elements)
    val = lambda x: float(SR.lift(x).c) if not isinstance(x, (int, float, np.integer, np.floating)) else float(x)
    for ed in range(g.number_of_edges):
        ne = [int(x) for x in g.edge_neighbors[ed]]
        if len(ne) != 2 or not (ne[0] in supp and ne[1] in supp):
            continue
        if kind in ("RWG", "SNC"):
            loc = [[int(x) for x in g.element_edges[:, el]].index(ed) for el in ne]
            m = [val(mult[el, i]) for el, i in zip(ne, loc)]
            if m[0] != -m[1]:
                return "edge %d between supported elements %s: multipliers %s are not opposite (normal/tangential component jumps)" % (ed, ne, m)
            if m[0] != 0 and int(l2g[ne[0], loc[0]]) != int(l2g[ne[1], loc[1]]):
                return "edge %d: the two half functions belong to different dofs" % ed
        elif kind == "P":
            for vtx in [int(x) for x in g.edges[:, ed]]:
                loc = [[int(x) for x in g.elements[:, el]].index(vtx) for el in ne]
                m = [val(mult[el, i]) for el, i in zip(ne, loc)]
                if m[0] != m[1]:
                    return "vertex %d across edge %d between supported elements %s: multipliers %s differ (function jumps)" % (vtx, ed, ne, m)
                if m[0] != 0 and int(l2g[ne[0], loc[0]]) != int(l2g[ne[1], loc[1]]):
                    return "vertex %d across edge %d: different dofs on the two sides" % (vtx, ed)
    return ""


def coherence(space, g, kind):
    """'' if local2global/global2local are mutually inverse on non-zero multipliers and every dof is attached to one entity."""
    l2g, mult, g2l = np.asarray(space.local2global), np.asarray(space.local_multipliers), space.global2local
    n = int(space.global_dof_count)
    seen = {}
    for el in range(l2g.shape[0]):
        for i in range(l2g.shape[1]):
            if mult[el, i] != 0:
                d_ = int(l2g[el, i])
                if d_ >= n:
                    return "dof index out of range"
                if (el, i) not in [tuple(int(x) for x in t) for t in g2l[d_]]:
                    return "(%d,%d) -> %d missing from global2local" % (el, i, d_)
                if kind == "P":
                    ent = int(g.elements[i, el])
                elif kind in ("RWG", "SNC"):
                    ent = int(g.element_edges[i, el])
                else:
                    ent = (el, i) if l2g.shape[1] == 3 else el
                if seen.setdefault(d_, ent) != ent:
                    return "dof %d attached to entities %s and %s" % (d_, seen[d_], ent)
    for d_ in range(len(g2l)):
        for el, i in g2l[d_]:
            if int(l2g[int(el), int(i)]) != d_ or mult[int(el), int(i)] == 0:
                return "global2local[%d] lists (%d,%d) which maps elsewhere or has zero multiplier" % (d_, el, i)
    ents = list(seen.values())
    if len(set(map(str, ents))) != len(ents):
        return "two dofs attached to the same entity"
    return ""


# ----------------------------------------------------------------------------- concrete side (JIT)
def concrete(family, params):
    import bempp_cl.api as b

    rng = np.random.RandomState(5)
    if family == "conformity":
        v, e, d = W.mesh("T6")
        g = b.Grid(np.asarray(v, dtype=float) * np.array([[1.0], [1.3], [0.7]]), np.asarray(e))
        worst, det = 0.0, ""
        for kind, deg in (("P", 1), ("RWG", 0), ("SNC", 0)):
            sp = b.function_space(g, kind, deg)
            c = rng.rand(sp.global_dof_count)
            gf = b.GridFunction(sp, coefficients=c)
            for ed in range(g.number_of_edges):
                e0, e1 = [int(x) for x in g.edge_neighbors[ed]]
                A, Bv = [int(x) for x in g.edges[:, ed]]
                vals = []
                for el in (e0, e1):
                    la, lb = list(g.elements[:, el]).index(A), list(g.elements[:, el]).index(Bv)
                    p = 0.3 * np.array(REF[la], dtype=float) + 0.7 * np.array(REF[lb], dtype=float)
                    f = gf.evaluate(el, p.reshape(2, 1))[:, 0]
                    t = g.vertices[:, Bv] - g.vertices[:, A]
                    if kind == "P":
                        vals.append(f[0])
                    elif kind == "RWG":
                        vals.append(f.dot(np.cross(t, g.normals[el])))
                    else:
                        vals.append(f.dot(t))
                gap = abs(vals[0] - vals[1])
                if gap > worst:
                    worst, det = gap, kind
        return {"gap": worst if worst > 1e-10 else 0.0, "jump": worst, "key": "conformity/%s" % (det if worst > 1e-10 else "")}
    if family == "conformity_swapped":
        v, e, d = W.mesh("T7")
        g = b.Grid(np.asarray(v, dtype=float) * np.array([[1.0], [1.2], [0.8]]), np.asarray(e), np.asarray(d, dtype="uint32"))
        kind = {"P1": "P", "RWG": "RWG", "SNC": "SNC"}[params["kind"]]
        sp = b.function_space(g, kind, 1 if kind == "P" else 0, include_boundary_dofs=True, swapped_normals=[1])
        gf = b.GridFunction(sp, coefficients=rng.rand(sp.global_dof_count))
        worst = 0.0
        for ed in range(g.number_of_edges):
            ne = [int(x) for x in g.edge_neighbors[ed]]
            if len(ne) != 2:
                continue
            A, Bv = [int(x) for x in g.edges[:, ed]]
            vals = []
            for el in ne:
                la, lb = list(g.elements[:, el]).index(A), list(g.elements[:, el]).index(Bv)
                p = 0.3 * np.array(REF[la], dtype=float) + 0.7 * np.array(REF[lb], dtype=float)
                f = gf.evaluate(el, p.reshape(2, 1))[:, 0]
                t = g.vertices[:, Bv] - g.vertices[:, A]
                vals.append(f[0] if kind == "P" else (f.dot(np.cross(t, g.normals[el])) if kind == "RWG" else f.dot(t)))
            worst = max(worst, abs(vals[0] - vals[1]))
        return {"gap": worst if worst > 1e-10 else 0.0, "jump": worst, "key": "conformity/%s/partial-swapped-normals" % params["kind"]}
    if family == "bc_conformity":
        v, e, d = W.mesh(params["mesh"])
        g = b.Grid(np.asarray(v, dtype=float) * np.array([[1.0], [1.2], [0.8]]), np.asarray(e), np.asarray(d, dtype="uint32"))
        bg = g.barycentric_refinement
        worst, det = 0.0, ""
        opts = params.get("opts") or {}
        for kind in (("BC", "RBC") if "kind" not in params else (params["kind"],)):
            sp = b.function_space(g, kind, 0, **opts)
            supp = set(int(x) for x in sp.support_elements)
            gf = b.GridFunction(sp, coefficients=rng.rand(sp.global_dof_count))
            for ed in range(bg.number_of_edges):
                ne = [int(x) for x in bg.edge_neighbors[ed]]
                if len(ne) != 2 or not (ne[0] in supp and ne[1] in supp):
                    continue
                A, Bv = [int(x) for x in bg.edges[:, ed]]
                vals = []
                for el in ne:
                    la, lb = list(bg.elements[:, el]).index(A), list(bg.elements[:, el]).index(Bv)
                    p = 0.3 * np.array(REF[la], dtype=float) + 0.7 * np.array(REF[lb], dtype=float)
                    f = gf.evaluate(el, p.reshape(2, 1))[:, 0]
                    t = bg.vertices[:, Bv] - bg.vertices[:, A]
                    vals.append(f.dot(np.cross(t, bg.normals[el])) if kind == "BC" else f.dot(t))
                gap = abs(vals[0] - vals[1])
                if gap > worst:
                    worst, det = gap, kind
        return {"gap": worst if worst > 1e-10 else 0.0, "jump": worst, "key": "bc_conformity/%s%s" % (det if worst > 1e-10 else "", "/segment" if opts else "")}
    if family == "partition_of_unity" or family == "dual_nodal":
        v, e, d = W.mesh(params["mesh"])
        g = b.Grid(np.asarray(v, dtype=float), np.asarray(e))
        opts = params.get("opts") or {}
        if opts:
            g = b.Grid(np.asarray(v, dtype=float), np.asarray(e), np.asarray(d, dtype="uint32"))
        sp = b.function_space(g, params["kind"], params["deg"], **opts)
        gf = b.GridFunction(sp, coefficients=np.ones(sp.global_dof_count))
        worst = 0.0
        fac = 6 if params["kind"] == "DUAL" else 1
        els = sp.support_elements if not opts else [fac * el + j for el in range(g.number_of_elements) if int(d[el]) in opts["segments"] for j in range(fac)]
        for el in els:
            for p in ([0.2, 0.3], [0.0, 0.0], [1.0, 0.0], [0.0, 1.0], [0.5, 0.5]):
                worst = max(worst, abs(gf.evaluate(int(el), np.array(p).reshape(2, 1))[0, 0] - 1))
        return {"gap": worst if worst > 1e-12 else 0.0, "max_dev_from_1": worst, "key": "partition_of_unity/%s%d%s" % (params["kind"], params["deg"], "/segment" if opts else "")}
    if family in ("dof_count", "dof_maps", "dof_count_empty"):
        # replay of a solver model: the mask / flags of the model are applied through the public API
        from ..run import model_float

        v, e, d = W.mesh(params["mesh"])
        g = b.Grid(np.asarray(v, dtype=float), np.asarray(e), np.asarray(d, dtype="uint32"))
        NE, NV = g.number_of_elements, g.number_of_vertices
        m = params.get("_model") or {}
        truthy = lambda x: str(x).lower() in ("true", "1")
        masks = []
        if m:
            masks.append(([truthy(m.get("m%d" % i, False)) for i in range(NE)], truthy(m.get("include_boundary_dofs", False)), truthy(m.get("truncate_at_segment_edge", False))))
        for _ in range(120):
            masks.append(([bool(x) for x in rng.rand(NE) < 0.5], bool(rng.rand() < 0.5), bool(rng.rand() < 0.5)))
        kind, deg = params["kind"], params["deg"]
        els = np.asarray(g.elements)
        for mask, inc, trunc in masks:
            if not any(mask):
                continue
            supp = [i for i in range(NE) if mask[i]]
            kw = {} if kind == "DP" else {"include_boundary_dofs": inc, "truncate_at_segment_edge": trunc}
            sp = b.function_space(g, kind, deg, support_elements=np.array(supp, dtype="uint32"), **kw)
            if kind == "P":
                cnt = 0
                for vtx in range(NV):
                    ve = [el for el in range(NE) if vtx in els[:, el]]
                    touch = any(mask[el] for el in ve)
                    interior = all(mask[el] for el in ve) and not g.data().vertex_on_boundary[vtx]
                    cnt += int(touch and (inc or interior))
            elif kind in ("RWG", "SNC"):
                cnt = 0
                for ed in range(g.number_of_edges):
                    ne = [int(x) for x in g.edge_neighbors[ed]]
                    k_ = sum(mask[x] for x in ne)
                    cnt += int(k_ == 2 or (inc and k_ == 1))
            else:
                cnt = len(supp) * (1 if deg == 0 else 3)
            if (family == "dof_count_empty") != (cnt == 0):
                continue  # the two obligation families are replayed separately
            if int(sp.global_dof_count) != cnt:
                key = "dof_count/%s%d/%s" % (kind, deg, "no-selected-entity" if cnt == 0 else "mismatch")
                return {"gap": 1.0, "key": key, "mask": supp, "include_boundary_dofs": inc, "truncate_at_segment_edge": trunc, "global_dof_count": int(sp.global_dof_count), "selected_entities": cnt}
            why = coherence(sp, g, kind) or conformity_table(sp, g, kind)
            if why:
                return {"gap": 1.0, "key": "dof_maps/%s%d" % (kind, deg), "why": why, "mask": supp}
        return {"gap": 0.0, "key": family}
    raise KeyError(family)
