"""C04 - operators on a subspace are congruence transforms of those on the element-wise space.

Both sides come from the real assembler (public API weak_form().to_dense()), run on free symbolic
geometry arrays with an uninterpreted Green's function:  A_S[i,j] == (T_test' A_loc T_trial)[i,j]
for every entry, where A_loc is the same operator on the localised (element-wise) full-grid spaces and
T = space.map_to_full_grid."""
import time
import numpy as np
import z3
from ..sym import SR, SC, ABS, eq_formula
from ..npshim import SA, lift_arr
from .. import world as W

LEVEL = "translation_validation"
EXPLANATION = (
    "Two paths through the real assembler (subspace vs element-wise full-grid space + sparse coefficient map) are executed symbolically "
    "on free geometry arrays with an uninterpreted kernel and proved equal entry by entry (polynomial identities with UFs, cvc5/z3): regular "
    "skipping, singular pair filtering by support, offsets, multipliers and scatter must be mutually consistent for every geometry and kernel value."
)
ROUNDS = ((("cvc5", 20), ("z3", 3)), (("cvc5", 120), ("z3", 60)), (("cvc5", 400),))

OPS = {
    # name: (module, function, kernel base names to replace, UF normals, complex, wavenumber)
    "laplace_sl": ("laplace", "single_layer", ["laplace_single_layer"], "", False, None),
    "laplace_dl": ("laplace", "double_layer", ["laplace_double_layer"], "y", False, None),
    "laplace_adl": ("laplace", "adjoint_double_layer", ["laplace_adjoint_double_layer"], "x", False, None),
    "laplace_hyp": ("laplace", "hypersingular", ["laplace_single_layer"], "", False, None),
    "helmholtz_sl": ("helmholtz", "single_layer", ["helmholtz_single_layer"], "", True, 1.5),
    "helmholtz_dl": ("helmholtz", "double_layer", ["helmholtz_double_layer"], "y", True, 1.5),
    "helmholtz_hyp": ("helmholtz", "hypersingular", ["helmholtz_single_layer"], "", True, 1.5 + 0.5j),
    "modhelm_sl": ("modified_helmholtz", "single_layer", ["modified_helmholtz_single_layer"], "", False, 1.5),
    "modhelm_hyp": ("modified_helmholtz", "hypersingular", ["modified_helmholtz_single_layer"], "", False, 1.5),
    "maxwell_e": ("maxwell", "electric_field", ["helmholtz_single_layer"], "", True, 1.5),
    "maxwell_m": ("maxwell", "magnetic_field", ["helmholtz_single_layer"], "", True, 1.5 + 0.5j),
}


def make_space(b, g, spec):
    kind, deg, kw = spec
    return b.function_space(g, kind, deg, **kw)


def build_op(b, opname, dom, ran, dual):
    mod, fn, _, _, _, k = OPS[opname]
    if mod == "maxwell" and (dom.identifier != "rwg0" or dual.identifier != "snc0"):
        # localised spaces carry the identifier '<kind>_localised': the public constructor only checks the
        # identifier and then forwards to create_operator with these arguments
        from bempp_cl.api.operators.boundary import common

        nm = "maxwell_electric_field" if fn == "electric_field" else "maxwell_magnetic_field"
        return common.create_operator(nm + "_boundary", dom, ran, dual, None, "default_nonlocal", [np.real(k), np.imag(k)], "helmholtz_single_layer", nm, None, None, True)
    f = getattr(getattr(b.operators.boundary, mod), fn)
    if k is None:
        return f(dom, ran, dual)
    return f(dom, ran, dual, k)


def configs(thorough):
    """Every assembler function has its own copy of the multiplier / scatter code, so every operator family is run with
    (A) a trial space restricted to segments WITHOUT boundary dofs (zero multipliers, parked dofs) against a differently
    restricted test space, and (B) the roles exchanged - on T7, which has adjacent (singular) and non-adjacent (regular)
    element pairs between and inside the supports."""
    seg = lambda s, **kw: dict(segments=s, **kw)
    out = []
    scalar_ops = ["laplace_sl", "laplace_dl", "laplace_adl", "helmholtz_sl", "helmholtz_dl", "modhelm_sl"]
    hyp_ops = ["laplace_hyp", "helmholtz_hyp", "modhelm_hyp"]
    # octahedron, upper half = segment 0, lower half = segment 1: the restricted P1 space keeps the apex dof only and has
    # zero multipliers (parked dofs) on the equator; opposite faces are non-adjacent (regular part), all others singular
    M = "T6"
    restricted = ("P", 1, seg([0]))
    other = ("P", 1, seg([1], include_boundary_dofs=True))
    for k, op in enumerate(scalar_ops):
        trial, test = (restricted, other) if k % 2 == 0 else (other, restricted)
        if op.endswith("_sl") and k % 3 == 0:
            test = ("DP", 1, seg([1]))
        out.append((M, op, trial, test, 1, 1))
    for op in hyp_ops:
        out.append((M, op, restricted, other, 1, 1))
        out.append((M, op, other, restricted, 1, 1))
    rwg_r = ("RWG", 0, seg([0]))
    snc_o = ("SNC", 0, seg([1], include_boundary_dofs=True))
    for op in ("maxwell_e", "maxwell_m"):
        out.append((M, op, rwg_r, snc_o, 1, 1))
        out.append((M, op, ("RWG", 0, seg([1], include_boundary_dofs=True)), ("SNC", 0, seg([0])), 1, 1))
    out += [
        ("T7", "laplace_dl", ("P", 1, seg([0, 2], include_boundary_dofs=True)), ("DP", 0, {}), 2, 1),
        ("T7", "laplace_adl", ("DP", 0, seg([1])), ("P", 1, seg([1], include_boundary_dofs=True, truncate_at_segment_edge=True)), 2, 1),
        ("T9", "laplace_sl", ("P", 1, seg([1], include_boundary_dofs=True, truncate_at_segment_edge=False)), ("P", 1, seg([0, 1], include_boundary_dofs=False)), 1, 1),
        ("T4", "maxwell_e", ("RWG", 0, {}), ("SNC", 0, {}), 1, 1),
    ]
    # supports that touch in ONE VERTEX only (no common element, no common edge): the singular rule has only
    # vertex-adjacent pairs; and supports with nothing in common (regular part only)
    v6, e6, _ = W.mesh("T6")
    e6 = np.asarray(e6)
    va = next((a, c) for a in range(e6.shape[1]) for c in range(e6.shape[1]) if a < c and len(set(e6[:, a]) & set(e6[:, c])) == 1)
    far = next((a, c) for a in range(e6.shape[1]) for c in range(e6.shape[1]) if a < c and len(set(e6[:, a]) & set(e6[:, c])) == 0)
    sup = lambda *els, **kw: dict(support_elements=np.array(els, dtype="uint32"), **kw)
    out += [
        ("T6", "laplace_sl", ("DP", 0, sup(va[0])), ("DP", 0, sup(va[1])), 1, 1),
        ("T6", "helmholtz_dl", ("P", 1, sup(va[0], include_boundary_dofs=True)), ("DP", 1, sup(va[1])), 1, 1),
        ("T6", "laplace_hyp", ("P", 1, sup(va[1], include_boundary_dofs=True)), ("P", 1, sup(va[0], include_boundary_dofs=True)), 1, 1),
        ("T6", "modhelm_sl", ("DP", 0, sup(far[0])), ("DP", 1, sup(far[1])), 1, 1),
    ]
    if thorough:
        out += [
            ("T6", "laplace_dl", ("P", 1, {}), ("P", 1, seg([0])), 2, 2),
            ("T6", "helmholtz_hyp", ("P", 1, seg([1], include_boundary_dofs=True)), ("P", 1, {}), 1, 1),
            ("T7", "modhelm_sl", ("DP", 1, {}), ("P", 1, seg([0, 2], include_boundary_dofs=True, truncate_at_segment_edge=True)), 3, 2),
            ("T5", "maxwell_e", ("RWG", 0, {"include_boundary_dofs": True}), ("SNC", 0, {"include_boundary_dofs": True}), 2, 1),
            ("T7", "helmholtz_dl", ("P", 1, dict(support_elements=np.array([0, 1, 4], dtype="uint32"))), ("DP", 0, {}), 2, 1),
            ("T9", "laplace_hyp", ("P", 1, seg([1], include_boundary_dofs=True)), ("P", 1, seg([0, 1], include_boundary_dofs=True, truncate_at_segment_edge=True)), 2, 2),
            ("T7", "maxwell_m", ("RWG", 0, seg([2], include_boundary_dofs=True)), ("SNC", 0, {"include_boundary_dofs": True}), 2, 1),
        ]
    return out


def _jsonable(spec):
    kind, deg, kw = spec
    return [kind, deg, {k: (v.tolist() if isinstance(v, np.ndarray) else v) for k, v in kw.items()}]


def run(ctx):
    import bempp_cl.api as b
    import bempp_cl.core.numba_kernels as nk

    ctx.bound("meshes", "T2/T4/T7/T9 (<=6 elements) quick; + T5/T6 (8 elements) thorough")
    ctx.bound("quadrature orders", "regular 1..2 (3 thorough), singular 1 (2 thorough)")
    ctx.bound("geometry", "free symbolic geometry arrays (normals, Jacobians, integration elements, vertices unconstrained reals)")
    ctx.out("the prolongation statement P' A_fine P -> A_coarse (a limit in the quadrature order)")
    ctx.out("grids with more than 8 elements; floating-point rounding")
    ctx.stub("Green's function = uninterpreted function of (x, y[, n]) (real or complex valued); ties to the real kernels are C05/C08/C20")
    first = True
    for ci, (mesh, opname, trial, test, oreg, osing) in enumerate(configs(ctx.thorough)):
        t0 = time.time()
        ABS.reset()
        mod, fn, knames, normals, cplx, k = OPS[opname]
        g = W.symgrid(mesh, tag="g%d" % ci)
        W.set_orders(oreg, osing)
        uf = W.UFKernel("K%d" % ci, normals=normals, complex_=cplx)
        with W.patched(*W.install_uf(knames, uf)):
            dom = make_space(b, g, trial)
            dual = make_space(b, g, test)
            A = build_op(b, opname, dom, dual, dual).weak_form().to_dense()
            # element-wise full-grid spaces with the same shapeset
            fdom = make_space(b, g, (trial[0], trial[1], {"include_boundary_dofs": True} if trial[0] in ("P", "RWG", "SNC") else {})).localised_space
            fdual = make_space(b, g, (test[0], test[1], {"include_boundary_dofs": True} if test[0] in ("P", "RWG", "SNC") else {})).localised_space
            Af = build_op(b, opname, fdom, fdual, fdual).weak_form().to_dense()
        Tt = lift_arr(np.asarray(dual.map_to_full_grid.todense()))
        Td = lift_arr(np.asarray(dom.map_to_full_grid.todense()))
        spec = (Tt.T @ Af @ Td).view(SA)
        params = {"mesh": mesh, "op": opname, "trial": _jsonable(trial), "test": _jsonable(test), "regular": oreg, "singular": osing}
        n = 0
        for idx, f in W.entries_eq(A, spec):
            ctx.prove("cfg%d/%s/%s/%d_%d" % (ci, mesh, opname, idx[0], idx[1]), f, [], family="congruence", params=params, abs_cons=False, group="cfg%d-%s-%s" % (ci, mesh, opname))
            n += 1
        if first:
            first = False
            # reachability + negative twin: T' (2 A_loc) T must differ somewhere
            spec2 = (Tt.T @ (Af * 2) @ Td).view(SA)
            ctx.twin("twin/doubled-entry", z3.And(*[f for _, f in W.entries_eq(A, spec2)]), [], abs_cons=False)
        ctx.sample({"config": params, "matrix_shape": list(np.shape(A)), "entries": n, "encode_s": round(time.time() - t0, 2)})
        if ctx.thorough or ci in (1, 7, 12):
            ctx.concrete("congruence/%d" % ci, "congruence", params)
        ctx.log("cfg%d %s %s %s x %s: %d entries, %.1fs" % (ci, mesh, opname, trial[0], test[0], n, time.time() - t0))


# ----------------------------------------------------------------------------- concrete side (JIT)
def concrete(family, params):
    import numpy as np
    import bempp_cl.api as b

    v, e, d = W.mesh(params["mesh"])
    g = b.Grid(np.asarray(v, dtype=float), np.asarray(e), np.asarray(d, dtype="uint32"))
    b.GLOBAL_PARAMETERS.quadrature.regular = params["regular"]
    b.GLOBAL_PARAMETERS.quadrature.singular = params["singular"]

    def sp(spec, full=False):
        kind, deg, kw = spec
        kw = dict(kw)
        if "support_elements" in kw:
            kw["support_elements"] = np.array(kw["support_elements"], dtype="uint32")
        if full:
            kw = {"include_boundary_dofs": True} if kind in ("P", "RWG", "SNC") else {}
        return b.function_space(g, kind, deg, **kw)

    dom, dual = sp(params["trial"]), sp(params["test"])
    A = build_op(b, params["op"], dom, dual, dual).weak_form().to_dense()
    fdom, fdual = sp(params["trial"], True).localised_space, sp(params["test"], True).localised_space
    Af = build_op(b, params["op"], fdom, fdual, fdual).weak_form().to_dense()
    spec = dual.map_to_full_grid.T @ Af @ dom.map_to_full_grid
    spec = np.asarray(spec)
    scale = max(np.max(np.abs(spec)), 1e-300)
    gap = float(np.max(np.abs(A - spec)) / scale)
    i, j = np.unravel_index(np.argmax(np.abs(A - spec)), A.shape)
    return {"gap": gap if gap > 1e-10 else 0.0, "max_rel_diff": gap, "worst_entry": [int(i), int(j)], "key": "congruence/%s/%s/%s/%s" % (params["mesh"], params["op"], params["trial"][0], params["test"][0])}
