"""C07 - boundary operators between disjoint grids equal Galerkin-tested potentials.

B[i,j] == sum_el sum_q w_q ie_el phi_i(x_q) Pot[psi_j](x_q): left side the real boundary assembler with
grids_identical=False, right side the real potential operator evaluated at the test grid's quadrature points
(map_to_point_cloud) and integrated by the harness; both with the same uninterpreted kernel on free
geometry arrays."""
import time
import numpy as np
import z3
from ..sym import SR, SC, ABS, ZERO, eq_formula
from ..npshim import SA, lift_arr
from .. import world as W

LEVEL = "translation_validation"
EXPLANATION = (
    "Boundary matrix between two disjoint grids vs the potential operator of every trial basis function, tested by quadrature on the test grid: "
    "two different assemblers of the real code (dense boundary assembler, potential assembler) executed symbolically with one uninterpreted kernel and "
    "free geometry arrays, equal entry by entry (cvc5/z3)."
)
ROUNDS = ((("cvc5", 20), ("z3", 3)), (("cvc5", 120), ("z3", 60)), (("cvc5", 400),))

CASES = {
    # name: (module, function, kernel names (boundary, potential share the regular kernel), complex, wavenumber)
    "laplace_sl": ("laplace", "single_layer", "laplace_single_layer", False, None),
    "laplace_dl": ("laplace", "double_layer", "laplace_double_layer", False, None),
    "helmholtz_sl": ("helmholtz", "single_layer", "helmholtz_single_layer", True, 1.3 + 0.4j),
    "helmholtz_dl": ("helmholtz", "double_layer", "helmholtz_double_layer", True, 1.3 + 0.4j),
    "modhelm_sl": ("modified_helmholtz", "single_layer", "modified_helmholtz_single_layer", False, 0.7),
    "modhelm_dl": ("modified_helmholtz", "double_layer", "modified_helmholtz_double_layer", False, 0.7),
}


def configs(thorough):
    out = [
        ("laplace_sl", "T2", "T1", ("DP", 0, {}), ("DP", 1, {}), 2),
        ("laplace_dl", "T2", "T1", ("P", 1, {"include_boundary_dofs": True}), ("DP", 1, {}), 2),
        ("helmholtz_sl", "T2", "T2", ("P", 1, {"include_boundary_dofs": True}), ("P", 1, {"include_boundary_dofs": True}), 1),
        ("helmholtz_dl", "T1", "T2", ("DP", 1, {}), ("DP", 0, {}), 2),
        ("modhelm_dl", "T2", "T1", ("DP", 0, {"segments": [1]}), ("P", 1, {"include_boundary_dofs": True}), 1),
        # normals swapped on part of the trial grid, continuous trial space with several colours (the assembler walks the
        # trial elements in colour order, the potential in support order)
        ("laplace_dl", "T7", "T1", ("P", 1, {"include_boundary_dofs": True, "swapped_normals": [1]}), ("DP", 0, {}), 1),
        ("helmholtz_dl", "T6", "T1", ("P", 1, {"segments": [1], "include_boundary_dofs": True, "swapped_normals": [1]}), ("DP", 0, {}), 1),
    ]
    if thorough:
        out += [
            ("laplace_dl", "T5", "T2", ("P", 1, {"include_boundary_dofs": True}), ("P", 1, {"include_boundary_dofs": True}), 3),
            ("modhelm_sl", "T2", "T2", ("DP", 1, {}), ("DP", 1, {"segments": [0]}), 3),
            ("helmholtz_sl", "T4", "T1", ("P", 1, {}), ("DP", 0, {}), 2),
        ]
    return out


def run(ctx):
    import bempp_cl.api as b
    import bempp_cl.api.integration.triangle_gauss as tg

    ctx.bound("grids", "trial grid T1/T2/T6/T7 (T4/T5 thorough) x test grid T1/T2; disjoint by construction (different Grid objects)")
    ctx.bound("quadrature orders", "regular 1..2 (3 thorough)")
    ctx.out("the electric-field statement (agrees only up to quadrature error)")
    ctx.stub("Green's function = uninterpreted function of (x, y, n_y) (the potential path passes a dummy test normal)")
    for ci, (case, mtrial, mtest, strial, stest, order) in enumerate(configs(ctx.thorough)):
        t0 = time.time()
        ABS.reset()
        mod, fn, kname, cplx, k = CASES[case]
        gA = W.symgrid(mtrial, tag="a%d" % ci)
        gB = W.symgrid(mtest, tag="b%d" % ci)
        W.set_orders(order, 1)
        uf = W.UFKernel("K%d" % ci, normals="y" if fn == "double_layer" else "", complex_=cplx)
        args = () if k is None else (k,)
        with W.patched(*W.install_uf([kname], uf)):
            dom = b.function_space(gA, strial[0], strial[1], **strial[2])
            tst = b.function_space(gB, stest[0], stest[1], **stest[2])
            Bm = getattr(getattr(b.operators.boundary, mod), fn)(dom, tst, tst, *args).weak_form().to_dense()
            pts = gB.map_to_point_cloud(order)  # (Q*NE_B, 3)
            pot = getattr(getattr(b.operators.potential, mod), fn)(dom, pts.T, *args)
            qp, qw = tg.rule(order)
            nq = len(qw)
            spec = np.empty(Bm.shape, dtype=object)
            spec.fill(ZERO)
            for j in range(dom.global_dof_count):
                c = np.zeros(dom.global_dof_count)
                c[j] = 1
                vals = pot.evaluate(b.GridFunction(dom, coefficients=lift_arr(c)))[0]
                for el in np.flatnonzero(tst.support):
                    phi = tst.evaluate(el, qp)[0]  # (nshape, Q)
                    for i in range(phi.shape[0]):
                        gi = int(tst.local2global[el, i])
                        acc = ZERO
                        for q in range(nq):
                            acc = acc + qw[q] * gB.data().integration_elements[el] * phi[i, q] * vals[el * nq + q]
                        spec[gi, j] = spec[gi, j] + acc
        params = {"case": case, "trial_mesh": mtrial, "test_mesh": mtest, "trial": list(strial), "test": list(stest), "order": order}
        n = 0
        for idx, f in W.entries_eq(Bm, spec):
            ctx.prove("cfg%d/%s/%d_%d" % (ci, case, idx[0], idx[1]), f, [], family="tested_potential", params=params, abs_cons=False, group="cfg%d-%s" % (ci, case))
            n += 1
        if ci == 0:
            spec2 = spec.copy()
            spec2[0, 0] = spec2[0, 0] * 2
            ctx.twin("twin/doubled-entry", z3.And(*[f for _, f in W.entries_eq(Bm, spec2)]), [], abs_cons=False)
        ctx.sample({"config": params, "shape": list(Bm.shape), "entries": n, "encode_s": round(time.time() - t0, 2)})
        if ctx.thorough or ci in (1, 3):
            ctx.concrete("tested_potential/%d" % ci, "tested_potential", params)
        ctx.log("cfg%d %s %s<-%s: %d entries %.1fs" % (ci, case, mtest, mtrial, n, time.time() - t0))
    run_maxwell(ctx, b, tg)


def run_maxwell(ctx, b, tg):
    """Maxwell magnetic-field boundary matrix between disjoint grids == tested magnetic potential (trace H x n),
    with a SYMBOLIC complex wavenumber and an uninterpreted Helmholtz kernel."""
    from .c13 import local_basis, peval
    from ..sym import Explorer

    kr, ki = z3.Real("kr"), z3.Real("ki")
    K = SC(SR(kr), SR(ki))
    cfgs = [("T1", "T1", 1)] + ([("T2", "T2", 1), ("T2", "T1", 2)] if ctx.thorough else [])
    # vector lemma used to state the tested trace with the RWG functions underlying the SNC test functions:
    # for a unit normal n and a tangential f:  (n x f) . (H x n) == - f . H     (Binet-Cauchy)
    f_, h_, n_ = [[z3.Real("%s%d" % (nm, d)) for d in range(3)] for nm in ("lf", "lh", "ln")]
    cr = lambda a, c: [a[1] * c[2] - a[2] * c[1], a[2] * c[0] - a[0] * c[2], a[0] * c[1] - a[1] * c[0]]
    dt = lambda a, c: a[0] * c[0] + a[1] * c[1] + a[2] * c[2]
    ctx.prove("mfie/lemma-trace", dt(cr(n_, f_), cr(h_, n_)) == -dt(f_, h_), [dt(n_, n_) == 1, dt(n_, f_) == 0], family="tested_mfield", params={"case": "lemma"}, abs_cons=False, group="mfie-lemma")
    for ci, (mtrial, mtest, order) in enumerate(cfgs):
        t0 = time.time()
        ABS.reset()
        gA = W.symgrid(mtrial, tag="ma%d" % ci)
        gB = W.symgrid(mtest, tag="mb%d" % ci)
        W.set_orders(order, 1)
        uf = W.UFKernel("KM%d" % ci, normals="", complex_=True)
        with W.patched(*W.install_uf(["helmholtz_single_layer"], uf)):
            dom = b.function_space(gA, "RWG", 0, include_boundary_dofs=True)
            tst = b.function_space(gB, "SNC", 0, include_boundary_dofs=True)
            rng_ = b.function_space(gB, "RWG", 0, include_boundary_dofs=True)
            Bm = b.operators.boundary.maxwell.magnetic_field(dom, rng_, tst, K).weak_form().to_dense()
            pts = gB.map_to_point_cloud(order)
            pot = b.operators.potential.maxwell.magnetic_field(dom, pts.T, K)
            qp, qw = tg.rule(order)
            nq = len(qw)
            spec = np.empty(Bm.shape, dtype=object)
            spec.fill(SC(ZERO, ZERO))
            gdB = gB.data()
            for j in range(dom.global_dof_count):
                c = np.zeros(dom.global_dof_count)
                c[j] = 1
                H = pot.evaluate(b.GridFunction(dom, coefficients=lift_arr(c)))  # (3, nelem*nq)
                assert np.array_equal(rng_.local2global, tst.local2global) and np.array_equal(rng_.local_multipliers, tst.local_multipliers)
                for el in np.flatnonzero(tst.support):
                    lb = local_basis(rng_, el)  # RWG functions f_i with snc_i = n x f_i
                    for i in range(3):
                        gi = int(tst.local2global[el, i])
                        acc = SC(ZERO, ZERO)
                        for q in range(nq):
                            dotp = SC(ZERO, ZERO)
                            for d in range(3):
                                dotp = dotp + H[d, el * nq + q] * peval(lb[i][d], qp[0, q], qp[1, q])
                            acc = acc - dotp * qw[q] * gdB.integration_elements[el]  # snc_i . (H x n) == - f_i . H
                        spec[gi, j] = spec[gi, j] + acc
        params = {"case": "maxwell_m", "trial_mesh": mtrial, "test_mesh": mtest, "order": order}
        n = 0
        for idx, f in W.entries_eq(Bm, spec):
            ctx.prove("mfie%d/%d_%d" % (ci, idx[0], idx[1]), f, [], family="tested_mfield", params=params, abs_cons="cone", group="mfie%d" % ci)
            n += 1
        ctx.concrete("tested_mfield/%d" % ci, "tested_mfield", params)
        ctx.log("mfie%d %s<-%s: %d entries %.1fs" % (ci, mtest, mtrial, n, time.time() - t0))


def concrete(family, params):
    import bempp_cl.api as b
    import bempp_cl.api.integration.triangle_gauss as tg

    if family == "tested_mfield":
        va, ea, da = W.mesh(params["trial_mesh"])
        vb, eb, db = W.mesh(params["test_mesh"])
        vb = np.asarray(vb, dtype=float) * 0.8 + np.array([[3.0], [0.3], [1.0]])
        gA = b.Grid(np.asarray(va, dtype=float), np.asarray(ea))
        gB = b.Grid(vb, np.asarray(eb))
        order = params["order"]
        b.GLOBAL_PARAMETERS.quadrature.regular = order
        dom = b.function_space(gA, "RWG", 0, include_boundary_dofs=True)
        tst = b.function_space(gB, "SNC", 0, include_boundary_dofs=True)
        rng_ = b.function_space(gB, "RWG", 0, include_boundary_dofs=True)
        qp, qw = tg.rule(order)
        nq = len(qw)
        pts = gB.map_to_point_cloud(order)
        worst = 0.0
        for k in (1.5, 1.5 + 0.7j, 0.9 - 0.4j):
            Bm = b.operators.boundary.maxwell.magnetic_field(dom, rng_, tst, k).weak_form().to_dense()
            pot = b.operators.potential.maxwell.magnetic_field(dom, pts.T, k)
            spec = np.zeros(Bm.shape, dtype=complex)
            for j in range(dom.global_dof_count):
                c = np.zeros(dom.global_dof_count, dtype=complex)
                c[j] = 1
                H = pot.evaluate(b.GridFunction(dom, coefficients=c))
                for el in range(gB.number_of_elements):
                    tv = tst.evaluate(el, qp)
                    tr = np.cross(H[:, el * nq : (el + 1) * nq].T, gB.normals[el]).T
                    for i in range(3):
                        spec[tst.local2global[el, i], j] += np.sum(qw * gB.integration_elements[el] * np.sum(tv[:, i, :] * tr, axis=0))
            worst = max(worst, float(np.max(np.abs(Bm - spec)) / np.max(np.abs(spec))))
        return {"gap": worst if worst > 1e-10 else 0.0, "max_rel_diff": worst, "key": "tested_mfield"}

    mod, fn, kname, cplx, k = CASES[params["case"]]
    va, ea, da = W.mesh(params["trial_mesh"])
    vb, eb, db = W.mesh(params["test_mesh"])
    vb = np.asarray(vb, dtype=float) + np.array([[5.0], [0.3], [1.0]])
    gA = b.Grid(np.asarray(va, dtype=float), np.asarray(ea), np.asarray(da, dtype="uint32"))
    gB = b.Grid(vb, np.asarray(eb), np.asarray(db, dtype="uint32"))
    order = params["order"]
    b.GLOBAL_PARAMETERS.quadrature.regular = order
    args = () if k is None else (k,)
    st, ss = params["trial"], params["test"]
    dom = b.function_space(gA, st[0], st[1], **st[2])
    tst = b.function_space(gB, ss[0], ss[1], **ss[2])
    Bm = getattr(getattr(b.operators.boundary, mod), fn)(dom, tst, tst, *args).weak_form().to_dense()
    pts = gB.map_to_point_cloud(order)
    pot = getattr(getattr(b.operators.potential, mod), fn)(dom, pts.T, *args)
    qp, qw = tg.rule(order)
    nq = len(qw)
    spec = np.zeros(Bm.shape, dtype=Bm.dtype if np.iscomplexobj(Bm) else (complex if cplx else float))
    for j in range(dom.global_dof_count):
        c = np.zeros(dom.global_dof_count)
        c[j] = 1
        vals = pot.evaluate(b.GridFunction(dom, coefficients=c))[0]
        for el in np.flatnonzero(tst.support):
            phi = tst.evaluate(el, qp)[0]
            for i in range(phi.shape[0]):
                spec[tst.local2global[el, i], j] += np.sum(qw * gB.data().integration_elements[el] * phi[i] * vals[el * nq : (el + 1) * nq])
    gap = float(np.max(np.abs(Bm - spec)) / max(np.max(np.abs(spec)), 1e-300))
    return {"gap": gap if gap > 1e-10 else 0.0, "max_rel_diff": gap, "key": "tested_potential/%s" % params["case"]}
