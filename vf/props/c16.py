"""C16 - assembly results are independent of thread count and scheduling.

(i)   every function with parallel=True and a prange loop (found by AST scan of the current source) is executed
      with two symbolic iterations; no write/write or read/write pair of different iterations may hit the same
      cell (LIA+UF query; a model is a concrete interleaving witness).  The regular assemblers get exactly
      one hypothesis: the colouring invariant for the two test elements.
(ii)  the colouring invariant itself: _compute_color_map / _sort_elements_by_color / invert_local2global on a
      SYMBOLIC local2global table (path exploration): same colour => no common global dof; colour classes
      partition the support.
(iii) (auxiliary, concrete) every space constructor on the base meshes, all segment choices and flags,
      yields a colouring in which same-coloured support elements share no local2global entry at all
      (so the hypothesis of (i) holds including artificial zero-multiplier dofs)."""
import ast
import inspect
import itertools
import os
import time
import numpy as np
import z3
from ..sym import SI, SB, Explorer, Inconclusive
from .. import race as R
from .. import world as W

LEVEL = "other"
EXPLANATION = (
    "Data-race freedom of every prange loop decided symbolically: two iterations with unbounded symbolic indices, index-valued inputs as "
    "uninterpreted functions, shared arrays recording their accesses; conflicts are LIA+UF queries (z3/cvc5). The colouring invariant the assemblers "
    "rely on is decided by path exploration of the real colouring code over a symbolic local2global table."
)
ROUNDS = ((("z3", 20), ("cvc5", 20)), (("z3", 120), ("cvc5", 120)))
REPO = os.environ.get("VF_REPO", "/repo")
Q = 3  # quadrature points per element in the race runs
NSH = 3


def scan_parallel():
    """(module path, function name) of every function decorated with parallel=True that contains a prange."""
    out = []
    for rel in ("bempp_cl/core/numba_kernels.py", "bempp_cl/api/fmm/helpers.py", "bempp_cl/core/numba_assemblers.py", "bempp_cl/api/fmm/fmm_assembler.py", "bempp_cl/api/space/space.py", "bempp_cl/api/grid/grid.py", "bempp_cl/api/assembly/grid_function.py"):
        path = os.path.join(REPO, rel)
        tree = ast.parse(open(path).read())
        for node in ast.walk(tree):
            if isinstance(node, ast.FunctionDef):
                par = False
                for d in node.decorator_list:
                    if isinstance(d, ast.Call):
                        for kw in d.keywords:
                            if kw.arg == "parallel" and isinstance(kw.value, ast.Constant) and kw.value.value is True:
                                par = True
                has_prange = any(isinstance(n, ast.Attribute) and n.attr == "prange" for n in ast.walk(node))
                if par and has_prange:
                    # side condition: no augmented assignment to a bare name bound outside the prange loop body
                    out.append((rel, node.name))
    return out


class GD:
    def __init__(self, tag):
        self.elements = R.FunArray(tag + "elements", (3,), "int", lead_first=False)
        self.integration_elements = R.FunArray(tag + "ie")
        self.normals = R.FunArray(tag + "normals", (3,))
        self.jacobians = R.FunArray(tag + "jac", (3, 2))
        self.jac_inv_trans = R.FunArray(tag + "jit", (3, 2))
        self.vertices = R.FunArray(tag + "vertices", (3,), "real", lead_first=False)
        self.element_neighbor_indices = NeighborIndices(tag + "nbr")
        self.element_neighbor_indexptr = IndexPtr(tag + "nbrptr")

    def local2global(self, e, p):
        return R.OA((3, np.shape(p)[1]))


NN = 2  # neighbours per element in the FMM helper runs


class PtrVal(R.SIx):
    pass


class IndexPtr:
    """CSR pointer array: ptr[t+1] - ptr[t] is the (uniform, concrete) neighbour count NN."""

    def __init__(self, name):
        self.f = z3.Function(name, R.I, R.I)
        self.dtype = np.dtype("uint32")

    def __getitem__(self, i):
        v = PtrVal(self.f(z3.simplify(R.L(i))))
        v.idx = z3.simplify(R.L(i))
        v.arr = self
        return v

    def axioms(self, I0, I1):
        f = self.f
        return [f(I0 + 1) == f(I0) + NN, f(I1 + 1) == f(I1) + NN, f(I1) >= f(I0 + 1), f(I0) >= 0]


def _ptr_sub(self, o):
    if isinstance(o, PtrVal) and o.arr is self.arr and z3.simplify(self.idx - o.idx).eq(z3.IntVal(1)):
        return NN
    return R.SIx.__sub__(self, o)


PtrVal.__sub__ = _ptr_sub


class NeighborIndices:
    def __init__(self, name):
        self.f = z3.Function(name, R.I, R.I)
        self.length = 8

    def __len__(self):
        return self.length

    def __getitem__(self, idx):
        if isinstance(idx, slice):
            base = R.L(idx.start)
            outer = self

            class Sub:
                def __len__(self):
                    return NN

                def __getitem__(self, k):
                    if isinstance(k, int) and k >= NN:
                        raise IndexError
                    return R.SIx(outer.f(base + R.L(k)))

            return Sub()
        return R.SIx(self.f(R.L(idx)))


class ConstInts:
    """number_of_quad_points: the same concrete count for every singular pair."""

    def __init__(self, v):
        self.v = v

    def __getitem__(self, i):
        return self.v


class PointTable:
    """(2, big) table of local points sliced by symbolic offsets."""

    def __init__(self, n):
        self.n = n
        self.shape = (2, 10**6)
        self.dtype = np.dtype("float64")

    def __getitem__(self, idx):
        return R.OA((2, self.n))


def stub_module(nk, pr):
    """stubs for geometry helpers of numba_kernels (they contain no prange of interest themselves)."""
    tr = []
    tr.append((nk, "get_normals", lambda gd, n, els, mult: R.OA((3, n * len(els)))))
    tr.append((nk, "get_global_points", lambda gd, els, pts: R.OA((3, np.shape(pts)[1] * len(els)))))
    tr.append((nk, "elements_adjacent", lambda elements, a, c: False))

    def piola(gd, els, pts):
        if isinstance(els, list):
            return R.OA((len(els), 3, 3, np.shape(pts)[1]))
        return R.RecArray("piola", (len(els), 3, 3, np.shape(pts)[1]))

    tr.append((nk, "get_piola_transform", piola))
    tr.append((nk, "get_edge_lengths", lambda gd, els: R.FunArray("edgelen", (3,), "real")))
    return tr


def kernel_stub(*a):
    if len(a) == 5 and isinstance(a[3], np.dtype):  # fmm helper kernels: (targets, sources, params, dtype, result_type)
        return R.OA((4 * np.shape(a[0])[1] * np.shape(a[1])[1],))
    yp = a[1]
    return R.OA((np.shape(yp)[1],))


def shapeset_stub(dim):
    return lambda p: R.OA((dim, NSH, np.shape(p)[1]))


def args_for(fn, group, maxwell):
    sig = list(inspect.signature(fn).parameters)
    vals = {}
    for p in sig:
        if p.endswith("grid_data"):
            vals[p] = GD(p[:2])
        elif p in ("nshape_test", "nshape_trial", "number_of_shape_functions"):
            vals[p] = NSH
        elif p == "kernel_dimension":
            vals[p] = 3 if maxwell else 1
        elif p in ("test_elements", "trial_elements", "elements", "support_elements"):
            vals[p] = R.FunArray(p, (), "int", length=2)
        elif p in ("test_multipliers", "trial_multipliers"):
            vals[p] = R.FunArray(p, (NSH,), "real")
        elif p.endswith("normal_multipliers"):
            vals[p] = R.FunArray(p, (), "real")
        elif p.endswith("global_dofs"):
            vals[p] = R.FunArray(p, (NSH,), "int")
        elif p == "quad_points":
            vals[p] = R.OA((2, Q))
        elif p == "quad_weights":
            vals[p] = R.FunArray("quad_weights", (), "real", length=Q) if group == "singular" else R.OA((Q,))
        elif p in ("test_points", "trial_points"):
            vals[p] = PointTable(Q)
        elif p in ("test_offsets", "trial_offsets", "weights_offsets"):
            vals[p] = R.FunArray(p, (), "int")
        elif p == "number_of_quad_points":
            vals[p] = ConstInts(Q)
        elif p in ("kernel_evaluator", "kernel_function"):
            vals[p] = kernel_stub
        elif p == "kernel_parameters":
            vals[p] = R.OA((2,))
        elif p == "grids_identical":
            vals[p] = True
        elif p in ("test_shapeset", "trial_shapeset", "shapeset_evaluate"):
            vals[p] = shapeset_stub(2 if maxwell else 1)
        elif p == "result":
            vals[p] = R.RecArray("result", (10**6,) if group in ("singular", "sparse") else (10**6, 10**6), "complex128")
        elif p in ("dtype", "result_type", "kernel_type"):
            vals[p] = np.dtype("float64")
        elif p == "points":
            vals[p] = R.FunArray("points", (3,), "real", lead_first=False)
        elif p in ("x", "coeffs", "charges"):
            vals[p] = R.FunArray(p, (), "real")
        elif p == "local_points":
            vals[p] = R.OA((2, Q))
        elif p in ("targets", "sources"):
            vals[p] = TPoints(p)
        elif p == "kernel":
            vals[p] = lambda t, s, kp, dt, kt: R.OA((4 * np.shape(t)[1] * np.shape(s)[1],))
        elif p in ("test_basis_evaluate", "trial_basis_evaluate"):
            vals[p] = lambda el, shp, pts, gd, mult, nm: R.OA((1, NSH, np.shape(pts)[1]))
        else:
            raise Inconclusive("no argument model for parameter %r of %s" % (p, fn.__name__))
    return [vals[p] for p in sig], vals


class TPoints:
    """(M,3) point array used as  sources.T.copy()  /  targets[:, i]."""

    def __init__(self, name, t=False):
        self.name = name
        self.t = t
        self.dtype = np.dtype("float64")
        self.shape = (3, 2) if t else (2, 3)

    @property
    def T(self):
        return TPoints(self.name, not self.t)

    def copy(self):
        return self

    def __getitem__(self, idx):
        return R.OA((3,))


SPARSE_KERNELS = ("l2_identity_kernel", "laplace_beltrami_kernel", "_vector_grad_product_kernel", "_curl_curl_product_kernel")


def run_race(ctx, nk, modname, mod, fname, extra=None):
    fn = getattr(mod, fname)
    maxwell = "maxwell" in fname
    group = "regular" if ("regular" in fname) else "singular" if "singular" in fname else "potential" if ("potential" in fname or "far_field" in fname) else "sparse" if "sparse" in fname else "fmm"
    R.reset()
    pr = R.Prange()
    rnp = R.RaceNP()
    args, vals = args_for(fn, group, maxwell)
    if extra:
        for k, v in extra.items():
            args[list(inspect.signature(fn).parameters).index(k)] = v
            vals[k] = v

    class NB:
        prange = pr

        def __getattr__(self, n):
            import numba

            return getattr(numba, n)

    tr = [(mod, "_np", rnp), (mod, "_numba", NB())]
    if mod is nk:
        tr += stub_module(nk, pr)
    with W.patched(*tr):
        fn(*args)
    if pr.used == 0:
        raise Inconclusive("%s: prange not reached" % fname)
    hyps = pr.hyps()
    twin_hyps = list(hyps)
    if group == "regular":
        te, l2g = vals["test_elements"], vals["test_global_dofs"]
        e0, e1 = te.f(pr.I[0]), te.f(pr.I[1])
        hyps += [l2g.f(e0, z3.IntVal(i)) != l2g.f(e1, z3.IntVal(j)) for i in range(NSH) for j in range(NSH)]
    for p, v in vals.items():
        if isinstance(v, GD):
            hyps += v.element_neighbor_indexptr.axioms(pr.I[0], pr.I[1])
    conf = R.conflicts()
    name = "%s.%s" % (modname, fname) + ("" if not extra else "[%s]" % ",".join(getattr(v, "__name__", "?") for v in extra.values()))
    nacc = len(R.ACCESS)
    # one obligation per shared array (claim: no cross-iteration pair with a write can hit the same cell)
    byarr = {}
    for desc, f in conf:
        byarr.setdefault(desc.split(":")[0], []).append(f)
    for arr, fs in sorted(byarr.items()):
        ctx.prove("race/%s/%s" % (name, arr), z3.And(*[z3.Not(f) for f in fs]), hyps, family="race", params={"function": name, "array": arr, "pairs": len(fs)}, abs_cons=False, group="race-" + group)
    ctx.expect_sat("race/%s/witness" % name, hyps, abs_cons=False, group="race-" + group)
    if group == "regular" and fname == "default_scalar_regular_kernel":
        ctx.twin("twin/race-without-colouring-invariant", z3.And(*[z3.Not(f) for _, f in conf]), twin_hyps, abs_cons=False)
    ctx.sample({"function": name, "group": group, "recorded_accesses": nacc, "conflict_candidates": len(conf), "example": conf[0][0] if conf else None})
    return len(conf)


def run(ctx):
    import bempp_cl.api as b
    import bempp_cl.core.numba_kernels as nk
    import bempp_cl.api.fmm.helpers as fh
    import bempp_cl.api.space.space as sp

    ctx.bound("race analysis", "2 symbolic iterations (unbounded iteration numbers and element indices); %d quadrature points, %d shape functions, 2 trial elements, uniform neighbour count %d in the FMM helpers" % (Q, NSH, NN))
    ctx.bound("colouring", "symbolic local2global of 3 elements x 2 local dofs with values < 3 (quick) / 3 x 3 with values < 3 (thorough)")
    ctx.out("Numba's scheduler and fastmath re-association inside one iteration (each iteration is sequential and deterministic)")
    ctx.stub("numeric values are opaque; geometry helpers (get_normals, get_global_points, get_piola_transform, get_edge_lengths, elements_adjacent) return opaque arrays")
    found = scan_parallel()
    ctx.sample({"parallel_functions_found_by_ast_scan": ["%s:%s" % f for f in found]})
    mods = {"bempp_cl/core/numba_kernels.py": ("numba_kernels", nk), "bempp_cl/api/fmm/helpers.py": ("fmm.helpers", fh)}
    t0 = time.time()
    total = 0
    for rel, fname in found:
        if rel not in mods:
            ctx.inconclusive.append("parallel function %s:%s has no harness" % (rel, fname))
            continue
        modname, mod = mods[rel]
        try:
            if fname == "default_sparse_kernel":
                for kname in SPARSE_KERNELS:
                    class AnyT:
                        """opaque tensor of basis / gradient values: any index yields an opaque value"""
                        shape = (1, NSH, Q, Q)

                        def __getitem__(self, idx):
                            return R.Opaque()

                    def basis_eval(el, shp, pts, gd, mult, nm):
                        return AnyT()
                    total += run_race(ctx, nk, modname, mod, fname, extra={"kernel_evaluator": getattr(nk, kname), "test_basis_evaluate": basis_eval, "trial_basis_evaluate": basis_eval})
            else:
                total += run_race(ctx, nk, modname, mod, fname)
        except Inconclusive as e:
            ctx.inconclusive.append("race harness %s: %s" % (fname, e))
        except (TypeError, IndexError, AttributeError, ValueError) as e:
            ctx.inconclusive.append("race harness %s left the modelled fragment: %s: %s" % (fname, type(e).__name__, str(e)[:200]))
    ctx.encode_secs["race"] = round(time.time() - t0, 2)
    ctx.log("race analysis: %d functions, %d conflict candidates, %.1fs" % (len(found), total, time.time() - t0))

    # ---------------- (ii) colouring on a symbolic local2global table
    t0 = time.time()
    NEL, NLOC, D = (3, 3, 3) if ctx.thorough else (3, 2, 3)
    lv = [[z3.Int("l2g_%d_%d" % (e, i)) for i in range(NLOC)] for e in range(NEL)]
    l2g = np.empty((NEL, NLOC), dtype=object)
    for e in range(NEL):
        for i in range(NLOC):
            l2g[e, i] = SI(lv[e][i])
    assume = [z3.And(v >= 0, v < D) for row in lv for v in row]
    # the maximal dof is used (invert_local2global sizes its table by 1 + max)
    mult = np.ones((NEL, NLOC))

    class FakeGrid:
        number_of_elements = NEL

    class FakeSpace:
        pass

    def build():
        s = FakeSpace()
        s.grid = FakeGrid()
        s.support_elements = np.arange(NEL, dtype="uint32")
        s.number_of_support_elements = NEL
        s._color_map = None
        s.local2global = l2g
        # invert_local2global needs 1 + max(l2g): give it the bound D through a concrete sentinel row
        real_max = np.max
        g2l = [[] for _ in range(D)]
        for e in range(NEL):
            for li in range(NLOC):
                if mult[e, li] != 0:
                    g2l[int(l2g[e, li])].append((e, li))
        s.global2local = [tuple(x) for x in g2l]
        sp.FunctionSpace._compute_color_map(s)
        s.color_map = s._color_map
        sp.FunctionSpace._sort_elements_by_color(s)
        return [int(c) for c in s._color_map], [int(x) for x in s._sorted_indices], [int(x) for x in s._indexptr]

    ex = Explorer(assume=assume, max_paths=60000)
    res = ex.run(build)
    ctx.paths += ex.paths
    pcs = []
    for pi, (pc, out, exc) in enumerate(res):
        if exc is not None:
            raise exc
        cm, sorted_idx, ptr = out
        pcf = z3.And(*pc) if pc else z3.BoolVal(True)
        pcs.append(pcf)
        cl = []
        for a, c in itertools.combinations(range(NEL), 2):
            if cm[a] == cm[c]:
                cl += [lv[a][i] != lv[c][j] for i in range(NLOC) for j in range(NLOC)]
        # colour classes partition the support and the slices are exactly the classes
        ok = sorted(sorted_idx) == list(range(NEL)) and ptr[0] == 0 and ptr[-1] == NEL
        for col in range(len(ptr) - 1):
            ok = ok and all(cm[e] == col for e in sorted_idx[ptr[col] : ptr[col + 1]])
        cl.append(z3.BoolVal(bool(ok)))
        ctx.prove("colour/path%d" % pi, z3.And(*cl), assume + [pcf], family="colouring", params={}, abs_cons=False, group="colouring")
    ctx.prove("colour/paths-cover", z3.Or(pcs), assume, family="colouring", params={}, abs_cons=False, group="colouring")
    ctx.sample({"colouring_paths": len(res), "table": "%dx%d, values < %d" % (NEL, NLOC, D)})
    ctx.encode_secs["colouring"] = round(time.time() - t0, 2)
    ctx.log("colouring: %d paths %.1fs" % (len(res), time.time() - t0))
    # ---------------- (iii) constructors establish the hypothesis of (i): symbolic support mask and option flags
    t0 = time.time()
    nsp = 0
    for mesh in ("T5", "T9") + (("T4", "T6") if ctx.thorough else ()):
        v, e, d = W.mesh(mesh)
        g = b.Grid(np.asarray(v, dtype=float), np.asarray(e), np.asarray(d, dtype="uint32"))
        for kind, deg, fl in (("P", 1, True), ("RWG", 0, True), ("SNC", 0, True), ("DP", 0, False), ("DP", 1, False)):
            mv, fv, res, ex = W.explore_space_options(b, g, kind, deg, flags=fl)
            ctx.paths += ex.paths
            pcs = []
            for pi, (pc, space, exc) in enumerate(res):
                pcf = z3.And(*pc) if pc else z3.BoolVal(True)
                pcs.append(pcf)
                if exc is not None:
                    ctx.prove("ctor/%s/%s%d/path%d/raises" % (mesh, kind, deg, pi), z3.BoolVal(False), [z3.Or(*mv), pcf], family="constructors", params={"mesh": mesh, "kind": kind, "deg": deg, "error": "%s: %s" % (type(exc).__name__, str(exc)[:120])}, abs_cons=False, group="constructors")
                    continue
                nsp += 1
                ok = True
                why = ""
                for spc in (space, space.localised_space):
                    cm, l2g, supp = spc.color_map, spc.local2global, spc.support_elements
                    idx, ptr = spc.get_elements_by_color()
                    if sorted(int(x) for x in idx) != sorted(int(x) for x in supp):
                        ok, why = False, "colour slices do not partition the support"
                    for col in range(len(ptr) - 1):
                        if any(cm[int(el)] != col for el in idx[ptr[col] : ptr[col + 1]]):
                            ok, why = False, "colour slice %d contains an element of another colour" % col
                    for a, c in itertools.combinations([int(x) for x in supp], 2):
                        if cm[a] == cm[c] and set(int(x) for x in l2g[a]) & set(int(x) for x in l2g[c]):
                            ok, why = False, "elements %d,%d have the same colour and both write global dof(s) %s" % (a, c, sorted(set(int(x) for x in l2g[a]) & set(int(x) for x in l2g[c])))
                ctx.prove("ctor/%s/%s%d/path%d" % (mesh, kind, deg, pi), z3.BoolVal(ok), [z3.Or(*mv), pcf], family="constructors", params={"mesh": mesh, "kind": kind, "deg": deg, "why": why}, abs_cons=False, group="constructors")
            ctx.prove("ctor/%s/%s%d/paths-cover" % (mesh, kind, deg), z3.Or(pcs), [z3.Or(*mv)], family="constructors", params={"mesh": mesh, "kind": kind, "deg": deg}, abs_cons=False, group="constructors")
    ctx.sample({"constructor_paths_checked": nsp})
    ctx.encode_secs["constructors"] = round(time.time() - t0, 2)
    ctx.log("constructors: %d spaces (paths) %.1fs" % (nsp, time.time() - t0))
    # auxiliary concrete sweep over constructors (larger meshes, dual/barycentric spaces) + thread-count sanity replay
    ctx.concrete("constructors", "constructors", {})
    ctx.concrete("threads", "threads", {})


# ----------------------------------------------------------------------------- concrete side (JIT)
def concrete(family, params):
    import bempp_cl.api as b

    if family in ("constructors", "colouring", "race"):
        bad = []
        n = 0
        for mesh in ("T4", "T5", "T6", "T8", "T9"):
            v, e, d = W.mesh(mesh)
            g = b.Grid(np.asarray(v, dtype=float), np.asarray(e), np.asarray(d, dtype="uint32"))
            segsets = [None] + [[s] for s in sorted(set(d))] + ([sorted(set(d))[:2]] if len(set(d)) > 2 else [])
            for kind, deg in [("DP", 0), ("DP", 1), ("P", 1), ("RWG", 0), ("SNC", 0), ("DUAL", 0), ("DUAL", 1), ("BC", 0), ("RBC", 0)]:
                if mesh == "T8" and kind in ("RWG", "SNC", "BC", "RBC", "DUAL"):
                    continue
                for segs in segsets:
                    for ib in (False, True):
                        for trn in (False, True):
                            kw = {}
                            if segs is not None:
                                kw["segments"] = segs
                            if kind in ("P", "RWG", "SNC", "DUAL", "BC", "RBC"):
                                kw.update(include_boundary_dofs=ib, truncate_at_segment_edge=trn)
                            elif ib or trn:
                                continue
                            try:
                                s = b.function_space(g, kind, deg, **kw)
                            except Exception:
                                continue
                            reps = [s, s.localised_space]
                            try:
                                if s.barycentric_representation and not s.is_barycentric:
                                    reps.append(s.barycentric_representation())
                            except Exception:
                                pass
                            for spc in reps:
                                if spc is None:
                                    continue
                                n += 1
                                cm, l2g, supp = spc.color_map, spc.local2global, spc.support_elements
                                idx, ptr = spc.get_elements_by_color()
                                if sorted(int(x) for x in idx) != sorted(int(x) for x in supp):
                                    bad.append("%s %s%d %s: colour slices do not partition the support" % (mesh, kind, deg, kw))
                                for a, c in itertools.combinations(supp, 2):
                                    if cm[a] == cm[c] and set(l2g[a]) & set(l2g[c]):
                                        bad.append("%s %s%d %s: elements %d,%d same colour share a dof" % (mesh, kind, deg, kw, a, c))
                                        break
        return {"gap": 1.0 if bad else 0.0, "spaces": n, "problems": bad[:5], "key": "colouring/constructors"}
    if family == "threads":
        import numba

        v, e, d = W.mesh("T6")
        g = b.Grid(np.asarray(v, dtype=float), np.asarray(e)).refine()
        p1 = b.function_space(g, "P", 1)
        ref = None
        worst = 0.0
        for nt in (1, 2, 7, 16):
            try:
                numba.set_num_threads(min(nt, numba.config.NUMBA_NUM_THREADS))
            except Exception:
                pass
            A = b.operators.boundary.laplace.single_layer(p1, p1, p1).weak_form().to_dense()
            if ref is None:
                ref = A
            worst = max(worst, float(np.max(np.abs(A - ref))))
        return {"gap": worst, "key": "threads/bitwise"}
    raise KeyError(family)
