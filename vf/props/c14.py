"""C14 - operator, grid-function and potential algebra is coherent.

Leaf operators are BoundaryOperator objects whose _assemble returns a Dense / Sparse / Generic discrete operator over a
fresh SYMBOLIC matrix (assembly itself is the subject of C03-C08); the real algebra classes then build every well-typed
expression tree of bounded depth over + - unary- scalar* *scalar @ strong_form, with symbolic real / complex scalars and
NumPy scalar types, and the results (to_dense, matvec on a symbolic real and complex vector, application to grid
functions) are compared entry by entry with the matrix expression written by the harness (mass matrices concrete,
inverted exactly by the LAPACK contract stub).  Ill-typed trees must raise ValueError.  The same for potential-operator
sums / scalings, blocked operators and grid-function arithmetic."""
import itertools
import random
import time
from fractions import Fraction as F
import numpy as np
import z3
from ..sym import SR, SC, ABS, ZERO, ONE, eq_formula
from ..npshim import SA, lift_arr, sym_array
from .. import world as W
from .. import lapack

LEVEL = "other"
EXPLANATION = (
    "The real operator-algebra classes are executed on symbolic matrices, scalars and vectors for every well-typed expression tree of bounded depth "
    "(programs) and compared with the corresponding matrix expression as polynomial identities (z3/cvc5); ill-typed trees must be rejected."
)
ROUNDS = ((("z3", 20), ("cvc5", 20)), (("z3", 120), ("cvc5", 120)), (("z3", 600), ("cvc5", 600)))


class Leaf:
    pass


def run(ctx):
    import bempp_cl.api as b
    from bempp_cl.api.assembly.boundary_operator import BoundaryOperator
    from bempp_cl.api.assembly.discrete_boundary_operator import DenseDiscreteBoundaryOperator, SparseDiscreteBoundaryOperator, GenericDiscreteBoundaryOperator
    from bempp_cl.api.assembly.blocked_operator import BlockedOperator, GeneralizedBlockedOperator
    from ..sparse import DS

    lapack.install()
    thorough = ctx.thorough
    rng = random.Random(ctx.seed + 14)
    ctx.bound("expression trees", "all well-typed trees of depth 1 over 4 leaves and 8 operations; a seeded sample of %d depth-2 trees (all %s in the thorough tier); matrices up to 5x5" % (24, "depth-2 trees built from depth-1 trees and leaves"))
    ctx.out("float32 preservation; trees deeper than 2 (3)")
    ctx.stub("leaf assembly -> Dense/Sparse/Generic discrete operator over a symbolic matrix")
    ctx.stub("splu -> exact rational solve of the (concrete) mass matrix")
    v, e, d = W.mesh("F5")  # flat mesh: mass matrices are exact rationals
    g = b.Grid(np.asarray(v, dtype=float), np.asarray(e), np.asarray(d, dtype="uint32"))
    p1 = b.function_space(g, "P", 1, include_boundary_dofs=True)  # 5 dofs
    dp0 = b.function_space(g, "DP", 0)  # 4 dofs
    v2, e2, d2 = W.mesh("F2")
    g2 = b.Grid(np.asarray(v2, dtype=float), np.asarray(e2))
    other = b.function_space(g2, "DP", 0)  # incompatible space
    M = {"p1": lift_arr(p1.mass_matrix().to_sparse().toarray()), "dp0": lift_arr(dp0.mass_matrix().to_sparse().toarray()), "other": lift_arr(other.mass_matrix().to_sparse().toarray())}
    Minv = {k: lapack.exact_inverse(m) for k, m in M.items()}
    SP = {"p1": p1, "dp0": dp0, "other": other}

    class SymOp(BoundaryOperator):
        def __init__(self, name, dom, ran, dual, kind="dense", cplx=False):
            super().__init__(SP[dom], SP[ran], SP[dual], b.GLOBAL_PARAMETERS)
            self.mat = sym_array(name, (SP[dual].global_dof_count, SP[dom].global_dof_count), complex_=cplx)
            self.kind = kind
            self.tags = (dom, ran, dual)

        def _assemble(self):
            if self.kind == "dense":
                return DenseDiscreteBoundaryOperator(self.mat)
            if self.kind == "sparse":
                return SparseDiscreteBoundaryOperator(DS(self.mat))
            mat = self.mat

            class Ev:
                shape = mat.shape
                dtype = mat.dtype

                def matvec(self, x):
                    return (mat @ lift_arr(x)).view(SA)

            return GenericDiscreteBoundaryOperator(Ev())

    leaves = {
        "A": SymOp("A", "p1", "p1", "p1", "dense"),
        "B": SymOp("B", "p1", "p1", "p1", "sparse"),
        "C": SymOp("C", "dp0", "p1", "p1", "dense", cplx=True),
        "D": SymOp("D", "p1", "dp0", "dp0", "generic"),
        "X": SymOp("X", "other", "other", "other", "dense"),
    }
    al = SR.var("alpha")
    be = SC(SR.var("beta_r"), SR.var("beta_i"))
    scalars = {"alpha": al, "beta": be, "np2.5": np.float64(2.5), "np1j": np.complex128(0.5 + 1j), "int3": 3}

    # expression trees: (real object, spec matrix, type tags) or None when ill-typed
    def leaf(nm):
        L = leaves[nm]
        return ("leaf", nm), L, L.mat, L.tags

    def apply(op, a, b_=None, s=None):
        """returns (desc, real, spec, tags) ; raises ValueError from the real code for ill-typed input."""
        if op == "neg":
            return ("neg", a[0]), -a[1], (a[2] * (-1)).view(SA), a[3]
        if op == "lscal":
            return ("lscal", s, a[0]), scalars[s] * a[1], (a[2] * _sc(scalars[s])).view(SA), a[3]
        if op == "rscal":
            return ("rscal", a[0], s), a[1] * scalars[s], (a[2] * _sc(scalars[s])).view(SA), a[3]
        if op == "add":
            typed = a[3] == b_[3]
            real = a[1] + b_[1]
            return ("add", a[0], b_[0]), real, (a[2] + b_[2]).view(SA) if typed else None, a[3] if typed else None
        if op == "sub":
            typed = a[3] == b_[3]
            real = a[1] - b_[1]
            return ("sub", a[0], b_[0]), real, (a[2] - b_[2]).view(SA) if typed else None, a[3] if typed else None
        if op == "mul":
            typed = b_[3][1] == a[3][0]
            real = a[1] * b_[1]
            if not typed:
                return ("mul", a[0], b_[0]), real, None, None
            return ("mul", a[0], b_[0]), real, (a[2] @ Minv[b_[3][2]] @ b_[2]).view(SA), (b_[3][0], a[3][1], a[3][2])
        raise KeyError(op)

    def _sc(s):
        if isinstance(s, (SR, SC)):
            return s
        if isinstance(s, (complex, np.complexfloating)):
            return SC.lift(complex(s))
        return SR.lift(s)

    good = "ABCD"
    depth1 = []
    for nm in good:
        L = leaf(nm)
        depth1.append(("neg", (L,), {}))
        for s in scalars:
            depth1.append(("lscal", (L,), {"s": s}))
        depth1.append(("rscal", (L,), {"s": "alpha"}))
    for x, y in itertools.product(good + "X", repeat=2):
        for op in ("add", "sub", "mul"):
            depth1.append((op, (leaf(x), leaf(y)), {}))

    def check_tree(desc, real, spec, tags, name):
        """obligations for one well-typed tree."""
        params = {"tree": repr(desc)}
        wf = real.weak_form()
        dense = wf.to_dense()
        claims = [f for _, f in W.entries_eq(dense, spec)]
        nd = spec.shape[1]
        x = sym_array("x", (nd,))
        xc = sym_array("xc", (nd,), complex_=True)
        mv = wf @ x
        claims += [f for _, f in W.entries_eq(np.asarray(mv, dtype=object).ravel(), (spec @ x).ravel())]
        mvc = wf @ xc
        claims += [f for _, f in W.entries_eq(np.asarray(mvc, dtype=object).ravel(), (spec @ xc).ravel())]
        Xm = sym_array("X", (nd, 2))
        mm = wf @ Xm
        claims += [f for _, f in W.entries_eq(np.asarray(mm, dtype=object), (spec @ Xm))]
        # application to a grid function: projections of the image
        gf = b.GridFunction(SP[tags[0]], coefficients=x)
        img = real * gf
        claims += [f for _, f in W.entries_eq(np.asarray(img.projections(), dtype=object).ravel(), (spec @ x).ravel())]
        if img.space is not SP[tags[1]] or img.dual_space is not SP[tags[2]]:
            claims.append(z3.BoolVal(False))
        # strong form = M^-1 weak
        sf = real.strong_form().to_dense() if hasattr(real.strong_form(), "to_dense") else None
        if sf is not None:
            try:
                claims += [f for _, f in W.entries_eq(np.asarray(sf, dtype=object), (Minv[tags[2]] @ spec).view(SA))] if tags[1] == tags[2] else []
            except AssertionError:
                claims.append(z3.BoolVal(False))
        # products of composite trees give high-degree identities: smaller conjunctions keep each query within reach
        ch = 2 if (name.startswith("d2") and desc[0] == "mul") else 8
        for j in range(0, len(claims), ch):
            ctx.prove("%s/%d" % (name, j // ch), z3.And(*claims[j : j + ch]), [], family="tree", params=params, abs_cons=False, group="trees-depth%d" % (1 if name.startswith("d1") else 2))

    def safe_check_tree(desc, real, spec, tags, name):
        try:
            check_tree(desc, real, spec, tags, name)
        except (ValueError, TypeError, AttributeError, IndexError, RuntimeError, AssertionError) as ex:
            # evaluating a well-typed tree (weak form, matvec, strong form, application to a grid function) must not raise
            ctx.violation(name + "/evaluation-raises", "tree", {"tree": repr(desc)}, "%s: %s" % (type(ex).__name__, str(ex)[:200]))

    n_ill = 0
    results1 = []
    t0 = time.time()
    for k, (op, args, kw) in enumerate(depth1):
        name = "d1/%d/%s" % (k, op)
        try:
            r = apply(op, *args, **kw)
        except ValueError:
            # rejected: must be an ill-typed combination
            a = args[0]
            b_ = args[1] if len(args) > 1 else None
            ill = (op in ("add", "sub") and a[3] != b_[3]) or (op == "mul" and b_[3][1] != a[3][0])
            if not ill:
                ctx.violation(name + "/rejected", "tree", {"tree": repr((op, [x[0] for x in args], kw))}, "a well-typed combination raised ValueError")
            n_ill += 1
            continue
        except (AttributeError, TypeError) as ex:
            ctx.violation(name + "/raises", "tree", {"tree": repr((op, [x[0] for x in args], kw))}, "%s: %s" % (type(ex).__name__, str(ex)[:200]))
            continue
        desc, real, spec, tags = r
        if spec is None:
            # ill-typed but accepted at construction: it must at least fail when evaluated, never produce numbers
            try:
                real.weak_form().to_dense()
                ctx.violation(name + "/ill-typed-accepted", "tree", {"tree": repr(desc)}, "ill-typed combination produced numbers")
            except (ValueError, TypeError, AssertionError):
                n_ill += 1
            continue
        results1.append(r)
        safe_check_tree(desc, real, spec, tags, name)
    ctx.sample({"depth1_trees": len(results1), "ill_typed_rejected": n_ill})
    # depth 2: op(depth1, leaf/depth1)
    cands = []
    for a in results1:
        for nm in good:
            for op in ("add", "sub", "mul"):
                cands.append((op, (a, leaf(nm))))
                cands.append((op, (leaf(nm), a)))
        cands.append(("neg", (a,)))
        cands.append(("lscal", (a,), "beta"))
    for a, c in itertools.product(results1[:: max(1, len(results1) // 12)], repeat=2):
        cands.append(("mul", (a, c)))
        cands.append(("add", (a, c)))
    rng.shuffle(cands)
    limit = len(cands) if thorough else 24
    done = 0
    for k, cnd in enumerate(cands):
        if done >= limit:
            break
        op, args = cnd[0], cnd[1]
        kw = {"s": cnd[2]} if len(cnd) > 2 else {}
        try:
            desc, real, spec, tags = apply(op, *args, **kw)
        except ValueError:
            continue
        if spec is None:
            continue
        done += 1
        safe_check_tree(desc, real, spec, tags, "d2/%d/%s" % (k, op))
    ctx.sample({"depth2_trees_checked": done, "depth2_candidates": len(cands)})
    ctx.encode_secs["trees"] = round(time.time() - t0, 2)
    A = leaves["A"]
    ctx.twin("twin/sum-is-not-product", z3.And(*[f for _, f in W.entries_eq((A + leaves["B"]).weak_form().to_dense(), (A.mat @ Minv["p1"] @ leaves["B"].mat).view(SA))]), [], abs_cons=False)

    # ---------------- single-precision real leaves: the VALUES of every result are those of the matrix expression
    # (the branch "real operator, complex operand" must not depend on the operator being float64)
    for knd in ("dense", "sparse"):
        L32 = SymOp("S" + knd[0], "p1", "p1", "p1", knd)
        L32.mat.decl = "float32"
        for tnm, real, spec in (("leaf", L32, L32.mat), ("2L-L", 2.0 * L32 - L32, L32.mat), ("L+A", L32 + leaves["A"], (L32.mat + leaves["A"].mat).view(SA))):
            try:
                check_tree(("f32", knd, tnm), real, spec, ("p1", "p1", "p1"), "d1/f32-%s-%s" % (knd, tnm))
            except (ValueError, TypeError, AttributeError, IndexError, RuntimeError, AssertionError) as ex:
                ctx.violation("d1/f32-%s-%s/evaluation-raises" % (knd, tnm), "tree", {"tree": repr(("f32", knd, tnm))}, "%s: %s" % (type(ex).__name__, str(ex)[:200]))

    # ---------------- grid-function arithmetic
    cf = sym_array("f", (5,))
    cg = sym_array("g", (5,), complex_=True)
    f1 = b.GridFunction(p1, coefficients=cf)
    f2 = b.GridFunction(p1, coefficients=cg)
    cases = {"f+g": (lambda: f1 + f2, cf + cg), "f-g": (lambda: f1 - f2, cf - cg), "alpha*f": (lambda: al * f1, cf * al), "f*beta": (lambda: f2 * be, cg * be), "-f": (lambda: -f1, cf * (-1)), "f/2": (lambda: f1 / 2, cf * F(1, 2))}
    for nm, (fn, spec) in cases.items():
        try:
            r = fn()
            ctx.prove("gf/%s" % nm, z3.And(*[f for _, f in W.entries_eq(np.asarray(r.coefficients, dtype=object), np.asarray(spec, dtype=object))] + [z3.BoolVal(r.space is p1)]), [], family="gridfun", params={"case": nm}, abs_cons=False, group="grid-functions")
        except (AttributeError, TypeError, ValueError) as ex:
            ctx.violation("gf/%s/raises" % nm, "gridfun", {"case": nm}, "%s: %s" % (type(ex).__name__, ex))
    try:
        f1 + b.GridFunction(dp0, coefficients=sym_array("h", (4,)))
        ctx.violation("gf/ill-typed-sum", "gridfun", {"case": "ill"}, "sum of grid functions in different spaces accepted")
    except ValueError:
        pass

    # ---------------- potential operators: sums, differences, scalings
    pts = np.array([[2.0, -1.5], [0.3, 0.4], [0.1, 2.0]])
    uf = W.UFKernel("Kp", normals="", complex_=False)
    uf2 = W.UFKernel("Kq", normals="y", complex_=False)
    dens = b.GridFunction(dp0, coefficients=sym_array("q", (4,)))
    with W.patched(*(W.install_uf(["laplace_single_layer"], uf) + W.install_uf(["laplace_double_layer"], uf2))):
        W.set_orders(1, 1)
        S = b.operators.potential.laplace.single_layer(dp0, pts)
        Dp = b.operators.potential.laplace.double_layer(dp0, pts)
        s_val = S.evaluate(dens)
        d_val = Dp.evaluate(dens)
        pcases = {"S+D": (lambda: (S + Dp).evaluate(dens), s_val + d_val), "S-D": (lambda: (S - Dp).evaluate(dens), s_val - d_val), "alpha*S": (lambda: (al * S).evaluate(dens), s_val * al), "S*2.5": (lambda: (S * 2.5).evaluate(dens), s_val * F(5, 2)), "-S": (lambda: (-S).evaluate(dens), s_val * (-1)),
                  "S@f": (lambda: S @ dens, s_val), "(S+D).evaluation_points": (lambda: (S + Dp).evaluation_points - pts, np.zeros_like(pts)), "(2*S).evaluation_points": (lambda: (2 * S).evaluation_points - pts, np.zeros_like(pts))}
        for nm, (fn, spec) in pcases.items():
            try:
                r = fn()
                ctx.prove("pot/%s" % nm, z3.And(*[f for _, f in W.entries_eq(np.asarray(lift_arr(r), dtype=object), np.asarray(lift_arr(spec), dtype=object))]), [], family="potential_algebra", params={"case": nm}, abs_cons=False, group="potential-operators")
            except (AttributeError, TypeError, ValueError) as ex:
                ctx.violation("pot/%s/raises" % nm, "potential_algebra", {"case": nm}, "%s: %s" % (type(ex).__name__, str(ex)[:150]))
        try:
            S + b.operators.potential.laplace.single_layer(dp0, pts + 1.0)
            ctx.violation("pot/ill-typed-sum", "potential_algebra", {"case": "ill"}, "sum of potentials with different evaluation points accepted")
        except ValueError:
            pass

    # ---------------- blocked operators
    blk = BlockedOperator(2, 2)
    blk[0, 0], blk[0, 1], blk[1, 0], blk[1, 1] = leaves["A"], leaves["C"], leaves["D"], SymOp("E", "dp0", "dp0", "dp0", "dense")
    E = blk[1, 1]
    full = np.block([[leaves["A"].mat, leaves["C"].mat], [leaves["D"].mat, E.mat]]).view(SA)
    xb = sym_array("xb", (9,))
    try:
        bw = blk.weak_form()
        cl = [f for _, f in W.entries_eq(np.asarray(bw.to_dense(), dtype=object), full)] + [f for _, f in W.entries_eq(np.asarray(bw @ xb, dtype=object).ravel(), (full @ xb).ravel())]
        ctx.prove("blocked/weak", z3.And(*cl), [], family="blocked", params={"case": "weak"}, abs_cons=False, group="blocked")
        s2 = (blk + blk).weak_form().to_dense()
        ctx.prove("blocked/sum", z3.And(*[f for _, f in W.entries_eq(np.asarray(s2, dtype=object), (full * 2).view(SA))]), [], family="blocked", params={"case": "sum"}, abs_cons=False, group="blocked")
        s3 = (al * blk).weak_form().to_dense()
        ctx.prove("blocked/scaled", z3.And(*[f for _, f in W.entries_eq(np.asarray(s3, dtype=object), (full * al).view(SA))]), [], family="blocked", params={"case": "scaled"}, abs_cons=False, group="blocked")
        Mi = np.block([[Minv["p1"], lift_arr(np.zeros((5, 4)))], [lift_arr(np.zeros((4, 5))), Minv["dp0"]]]).view(SA)
        s4 = (blk * blk).weak_form().to_dense()
        ctx.prove("blocked/product", z3.And(*[f for _, f in W.entries_eq(np.asarray(s4, dtype=object), (full @ Mi @ full).view(SA))]), [], family="blocked", params={"case": "product"}, abs_cons=False, group="blocked")
        fl = [b.GridFunction(p1, coefficients=xb[:5]), b.GridFunction(dp0, coefficients=xb[5:])]
        out = blk * fl
        img = full @ xb
        cl = [f for _, f in W.entries_eq(np.asarray(out[0].projections(), dtype=object).ravel(), img[:5])] + [f for _, f in W.entries_eq(np.asarray(out[1].projections(), dtype=object).ravel(), img[5:])]
        ctx.prove("blocked/apply-to-functions", z3.And(*cl), [], family="blocked", params={"case": "apply"}, abs_cons=False, group="blocked")
    except (AttributeError, TypeError, ValueError, IndexError) as ex:
        ctx.violation("blocked/raises", "blocked", {"case": "basic"}, "%s: %s" % (type(ex).__name__, str(ex)[:200]))
    try:
        r = blk + 3
        if r is NotImplementedError or isinstance(r, type):
            ctx.violation("blocked/add-foreign-operand", "blocked", {"case": "add-foreign"}, "BlockedOperator + 3 returned %r instead of raising" % (r,))
    except (TypeError, ValueError, NotImplementedError):
        pass
    for fam in (("tree", "gridfun", "potential_algebra", "blocked") if ctx.thorough else ("tree", "potential_algebra")):
        ctx.concrete(fam, fam, {})


# ----------------------------------------------------------------------------- concrete side (JIT)
def concrete(family, params):
    import bempp_cl.api as b
    from bempp_cl.api.assembly.blocked_operator import BlockedOperator

    v, e, d = W.mesh("T6")
    g = b.Grid(np.asarray(v, dtype=float), np.asarray(e))
    p1 = b.function_space(g, "P", 1)
    dp0 = b.function_space(g, "DP", 0)
    b.GLOBAL_PARAMETERS.quadrature.regular = 2
    b.GLOBAL_PARAMETERS.quadrature.singular = 2
    L = b.operators.boundary.laplace
    H = b.operators.boundary.helmholtz
    A = L.single_layer(p1, p1, p1)
    Bop = b.operators.boundary.sparse.identity(p1, p1, p1)
    C = H.single_layer(dp0, p1, p1, 1.3)
    D = L.double_layer(p1, dp0, dp0)
    mA, mB, mC, mD = [o.weak_form().to_dense() if hasattr(o.weak_form(), "to_dense") else None for o in (A, Bop, C, D)]
    mB = Bop.weak_form().to_sparse().toarray()
    Mp1 = p1.mass_matrix().to_sparse().toarray()
    Mdp0 = dp0.mass_matrix().to_sparse().toarray()
    rng = np.random.RandomState(0)
    worst = 0.0
    bad = None

    def cmp(name, got, exp):
        nonlocal worst, bad
        gap = float(np.max(np.abs(np.asarray(got) - np.asarray(exp))) / max(np.max(np.abs(exp)), 1e-300))
        if gap > worst:
            worst, bad = gap, name

    if family == "tree":
        al, be = 0.7, 0.3 - 1.1j
        cmp("A+B", (A + Bop).weak_form().to_dense(), mA + mB)
        cmp("A-B", (A - Bop).weak_form().to_dense(), mA - mB)
        cmp("al*A", (al * A).weak_form().to_dense(), al * mA)
        cmp("A*be", (A * be).weak_form().to_dense(), be * mA)
        cmp("np*A", (np.float64(2.5) * A).weak_form().to_dense(), 2.5 * mA)
        cmp("-C", (-C).weak_form().to_dense(), -mC)
        cmp("A*B", (A * Bop).weak_form().to_dense(), mA @ np.linalg.solve(Mp1, mB))
        cmp("A*C", (A * C).weak_form().to_dense(), mA @ np.linalg.solve(Mp1, mC))
        cmp("D*A", (D * A).weak_form().to_dense(), mD @ np.linalg.solve(Mp1, mA))
        cmp("C*D", (C * D).weak_form().to_dense(), mC @ np.linalg.solve(Mdp0, mD))
        cmp("(A+B)*C", ((A + Bop) * C).weak_form().to_dense(), (mA + mB) @ np.linalg.solve(Mp1, mC))
        x = rng.rand(p1.global_dof_count) + 1j * rng.rand(p1.global_dof_count)
        cmp("matvec complex", (A * Bop).weak_form() @ x, mA @ np.linalg.solve(Mp1, mB) @ x)
        cmp("strong", A.strong_form().to_dense(), np.linalg.solve(Mp1, mA))
        f = b.GridFunction(p1, coefficients=x.real)
        cmp("A*f", (A * f).projections(), mA @ x.real)
        # single-precision real operator applied to complex data (values to single precision)
        A32 = L.double_layer(p1, p1, p1, precision="single")
        m32 = np.asarray(A32.weak_form().to_dense(), dtype=float)
        X2 = rng.rand(p1.global_dof_count, 2) + 1j * rng.rand(p1.global_dof_count, 2)
        for nm32, got32, exp32 in (("single @ complex matrix", A32.weak_form() @ X2, m32 @ X2), ("single @ complex vector", A32.weak_form() @ x, m32 @ x),
                                   ("single * complex GridFunction", (A32 * b.GridFunction(p1, coefficients=x)).projections(), m32 @ x)):
            g32 = float(np.max(np.abs(np.asarray(got32) - exp32)) / np.max(np.abs(exp32)))
            if g32 > 1e-5:
                cmp(nm32, got32, exp32)
        # products whose factors are tested against DIFFERENT spaces: everything derived from the product's declared spaces
        try:
            CD = C * D  # D: p1 -> dp0 tested with dp0, C: dp0 -> p1 tested with p1
            mCD = mC @ np.linalg.solve(Mdp0, mD)
            if CD.dual_to_range is not p1 or CD.range is not p1 or CD.domain is not p1:
                worst, bad = 1.0, "spaces of C*D"
            cmp("strong(C*D)", CD.strong_form().to_dense(), np.linalg.solve(Mp1, mCD))
            cmp("A*(C*D)", (A * CD).weak_form().to_dense(), mA @ np.linalg.solve(Mp1, mCD))
            cmp("(C*D)+A", (CD + A).weak_form().to_dense(), mCD + mA)
            img = CD * f
            cmp("((C*D)*f).projections", img.projections(), mCD @ x.real)
            cmp("((C*D)*f).coefficients", img.coefficients, np.linalg.solve(Mp1, mCD @ x.real))
            DC = D * C  # C first: dp0 -> p1 tested p1, then D: p1 -> dp0 tested dp0
            mDC = mD @ np.linalg.solve(Mp1, mC)
            cmp("strong(D*C)", DC.strong_form().to_dense(), np.linalg.solve(Mdp0, mDC))
            E_ = L.single_layer(dp0, dp0, dp0)
            cmp("(D*C)+E", (DC + E_).weak_form().to_dense(), mDC + E_.weak_form().to_dense())
        except Exception as ex:  # noqa: BLE001
            return {"gap": 1.0, "raised": "%s: %s" % (type(ex).__name__, str(ex)[:160]), "key": "tree/product-with-different-duals/raises"}
        for name, fn in (("A+D", lambda: A + D), ("A*D", lambda: (A * D)), ("D+C", lambda: D + C)):
            try:
                fn().weak_form().to_dense()
                worst, bad = 1.0, "ill-typed %s accepted" % name
            except ValueError:
                pass
    elif family == "gridfun":
        cf, cg = rng.rand(p1.global_dof_count), rng.rand(p1.global_dof_count) + 1j
        f1, f2 = b.GridFunction(p1, coefficients=cf), b.GridFunction(p1, coefficients=cg)
        cmp("f+g", (f1 + f2).coefficients, cf + cg)
        cmp("f-g", (f1 - f2).coefficients, cf - cg)
        cmp("2f", (2.0 * f1).coefficients, 2 * cf)
        cmp("-f", (-f1).coefficients, -cf)
        cmp("f/2", (f1 / 2).coefficients, cf / 2)
    elif family == "potential_algebra":
        pts = np.array([[2.0, -1.5], [0.3, 0.4], [0.1, 2.0]])
        S = b.operators.potential.laplace.single_layer(dp0, pts)
        Dp = b.operators.potential.laplace.double_layer(dp0, pts)
        q = b.GridFunction(dp0, coefficients=rng.rand(dp0.global_dof_count))
        sv, dv = S.evaluate(q), Dp.evaluate(q)
        for name, fn, exp in (("S+D", lambda: (S + Dp).evaluate(q), sv + dv), ("S-D", lambda: (S - Dp).evaluate(q), sv - dv), ("2S", lambda: (2.0 * S).evaluate(q), 2 * sv), ("-S", lambda: (-S).evaluate(q), -sv),
                              ("(S+D).evaluation_points", lambda: (S + Dp).evaluation_points, pts), ("(2*S).evaluation_points", lambda: (2 * S).evaluation_points, pts)):
            try:
                cmp(name, fn(), exp)
            except Exception as ex:
                return {"gap": 1.0, "raised": "%s: %s: %s" % (name, type(ex).__name__, str(ex)[:150]), "key": "potential_algebra/%s/raises" % name}
    elif family == "blocked":
        E = L.single_layer(dp0, dp0, dp0)
        blk = BlockedOperator(2, 2)
        blk[0, 0], blk[0, 1], blk[1, 0], blk[1, 1] = A, C, D, E
        mE = E.weak_form().to_dense()
        full = np.block([[mA, mC], [mD, mE]])
        cmp("weak", blk.weak_form().to_dense(), full)
        cmp("sum", (blk + blk).weak_form().to_dense(), 2 * full)
        cmp("scaled", (0.7 * blk).weak_form().to_dense(), 0.7 * full)
        Mi = np.block([[np.linalg.inv(Mp1), np.zeros((p1.global_dof_count, dp0.global_dof_count))], [np.zeros((dp0.global_dof_count, p1.global_dof_count)), np.linalg.inv(Mdp0)]])
        cmp("product", (blk * blk).weak_form().to_dense(), full @ Mi @ full)
        x = rng.rand(full.shape[1])
        out = blk * [b.GridFunction(p1, coefficients=x[: p1.global_dof_count]), b.GridFunction(dp0, coefficients=x[p1.global_dof_count :])]
        img = full @ x
        cmp("apply0", out[0].projections(), img[: p1.global_dof_count])
        cmp("apply1", out[1].projections(), img[p1.global_dof_count :])
        try:
            r = blk + 3
            if r is NotImplementedError:
                return {"gap": 1.0, "returned": "NotImplementedError class", "key": "blocked/add-foreign-operand"}
        except TypeError:
            pass
    else:
        raise KeyError(family)
    return {"gap": worst if worst > 1e-9 else 0.0, "worst_case": bad, "key": "%s/%s" % (family, bad if worst > 1e-9 else "")}
