"""C18 - results depend only on explicit arguments, not on process history.

Every quadrature / FMM parameter is a SYMBOLIC integer token (global defaults and explicit parameter objects carry
different symbols).  The five functions through which an order reaches the numerics (triangle_gauss.rule,
get_number_of_quad_points, duffy_galerkin.rule, number_of_quadrature_points, gauss.rule) are wrapped by recorders, and
FMM interface creation is tagged with the parameters it was built from.  For every history of API events of bounded
length followed by the observed operation, the claim
    every order that reached a rule lookup while computing X == the value in X's own parameter object
is a validity query over all parameter values (LIA); `sat` names parameter values for which the result depends on the
history.  Replays run the same history on the JIT build with concrete distinct orders and compare with a fresh state."""
import itertools
import sys
import time
import types
import numpy as np
import z3
from .. import world as W

LEVEL = "model_checking"
EXPLANATION = (
    "Bounded exploration of API-call histories (all sequences of <= 2 (3) events from 7 kinds, two placements of the operator's creation, 7 observed "
    "operation kinds) executed on the real code with symbolic parameter tokens; per history one LIA validity query over all parameter values."
)
ROUNDS = ((("z3", 20), ("cvc5", 20)),)
REP = 1  # concrete representative order carried by every token (numerics proceed; identity is in the symbol)


class Tok(int):
    """an int that remembers which symbolic parameter it is; dict/cache keys distinguish different symbols."""

    def __new__(cls, name, rep=REP):
        o = int.__new__(cls, rep)
        o.name = name
        return o

    def __repr__(self):
        return self.name

    def __hash__(self):
        return hash(self.name)

    def __eq__(self, o):
        if isinstance(o, Tok):
            return self.name == o.name
        return int.__eq__(self, o)

    def __ne__(self, o):
        r = self.__eq__(o)
        return not r

    @property
    def term(self):
        return z3.Int(self.name)


def term_of(x):
    return x.term if isinstance(x, Tok) else z3.IntVal(int(x))


EVENTS = ["weak_other_global", "weak_other_P2", "strong_other", "set_globals", "clear_fmm_cache", "new_space", "mass_matrix"]
# helm_imag_*: Helmholtz constructors with a purely imaginary wavenumber forward to the modified Helmholtz constructors - the
# explicit parameter object has to survive that hop
KINDS = ["dense_sl", "dense_hyp", "sparse_identity", "potential_sl", "gridfun", "fmm_sl", "fmm_potential", "helm_imag_hyp", "helm_imag_dl", "helm_imag_pot"]


def fake_exafmm():
    pkg = types.ModuleType("exafmm")

    def mk(modname, cls):
        m = types.ModuleType(modname)
        m.init_sources = lambda p, c: ("s", p)
        m.init_targets = lambda p: ("t", p)
        setattr(m, cls, lambda *a, **k: "fmm")
        m.setup = lambda s, t, f: {"s": s, "t": t}
        m.update_charges = lambda tree, vec: None
        m.clear_values = lambda tree: None
        m.evaluate = lambda tree, f: None
        return m

    pkg.laplace = mk("exafmm.laplace", "LaplaceFmm")
    pkg.helmholtz = mk("exafmm.helmholtz", "HelmholtzFmm")
    pkg.modified_helmholtz = mk("exafmm.modified_helmholtz", "ModifiedHelmholtzFmm")
    return pkg


class World:
    """fresh grid/spaces + recorders; one per history."""

    def __init__(self, b, counter):
        self.b = b
        v, e, d = W.mesh("T4")
        self.g = b.Grid(np.asarray(v, dtype=float), np.asarray(e))
        self.p1 = b.function_space(self.g, "P", 1)
        self.dp0 = b.function_space(self.g, "DP", 0)
        self.n = counter
        self.nsym = 0
        G = b.GLOBAL_PARAMETERS
        G.quadrature.regular = self.tok("g_reg")
        G.quadrature.singular = self.tok("g_sing")
        G.fmm.expansion_order = self.tok("g_exp")
        G.fmm.ncrit = self.tok("g_ncrit")
        G.fmm.dense_evaluation = True

    def tok(self, stem):
        self.nsym += 1
        return Tok("%s_%d" % (stem, self.nsym))

    def params(self, stem):
        from bempp_cl.api.utils.parameters import DefaultParameters

        P = DefaultParameters()
        P.quadrature.regular = self.tok(stem + "_reg")
        P.quadrature.singular = self.tok(stem + "_sing")
        P.fmm.expansion_order = self.tok(stem + "_exp")
        P.fmm.ncrit = self.tok(stem + "_ncrit")
        P.fmm.dense_evaluation = True
        return P


def make_observed(w, kind, P):
    """returns (create, observe): create() builds the object, observe(obj) computes the observable result."""
    b = w.b
    L = b.operators.boundary.laplace
    pts = np.array([[2.0, -1.5], [0.3, 0.4], [0.1, 2.0]])
    ones = lambda sp: 1.0 + np.arange(sp.global_dof_count) ** 2  # not constant: low-order rules must show
    if kind == "dense_sl":
        return (lambda: L.single_layer(w.p1, w.p1, w.p1, parameters=P)), (lambda op: op.weak_form())
    if kind == "dense_hyp":
        return (lambda: L.hypersingular(w.p1, w.p1, w.p1, parameters=P)), (lambda op: op.weak_form())
    if kind == "helm_imag_hyp":
        return (lambda: b.operators.boundary.helmholtz.hypersingular(w.p1, w.p1, w.p1, 0.75j, parameters=P)), (lambda op: op.weak_form())
    if kind == "helm_imag_dl":
        H = b.operators.boundary.helmholtz
        return (lambda: (H.double_layer(w.p1, w.p1, w.dp0, 0.75j, parameters=P), H.adjoint_double_layer(w.dp0, w.p1, w.p1, 0.75j, parameters=P), H.single_layer(w.dp0, w.p1, w.dp0, 0.75j, parameters=P))), (lambda ops: [op.weak_form() for op in ops])
    if kind == "helm_imag_pot":
        HP = b.operators.potential.helmholtz
        return (lambda: (HP.single_layer(w.dp0, pts, 0.75j, parameters=P), HP.double_layer(w.dp0, pts, 0.75j, parameters=P))), (lambda ops: [op.evaluate(b.GridFunction(w.dp0, coefficients=ones(w.dp0))) for op in ops])
    if kind == "sparse_identity":
        return (lambda: b.operators.boundary.sparse.identity(w.p1, w.p1, w.dp0, parameters=P)), (lambda op: op.weak_form())
    if kind == "potential_sl":
        return (lambda: b.operators.potential.laplace.single_layer(w.dp0, pts, parameters=P)), (lambda op: op.evaluate(b.GridFunction(w.dp0, coefficients=ones(w.dp0))))
    if kind == "gridfun":
        return (lambda: b.GridFunction(w.p1, coefficients=ones(w.p1), parameters=P)), (lambda f: (f.projections(w.p1), f.projections(w.dp0), f.integrate()))
    if kind == "fmm_sl":
        return (lambda: L.single_layer(w.p1, w.p1, w.p1, parameters=P, assembler="fmm")), (lambda op: op.weak_form() @ ones(w.p1))
    if kind == "fmm_potential":
        return (lambda: b.operators.potential.laplace.single_layer(w.dp0, pts, parameters=P, assembler="fmm")), (lambda op: op.evaluate(b.GridFunction(w.dp0, coefficients=ones(w.dp0))))
    raise KeyError(kind)


def do_event(w, ev, kind):
    b = w.b
    L = b.operators.boundary.laplace
    if ev == "weak_other_global":
        c, o = make_observed(w, kind, None)
        o(c())
    elif ev == "weak_other_P2":
        c, o = make_observed(w, kind, w.params("q"))
        o(c())
    elif ev == "strong_other":
        L.single_layer(w.p1, w.p1, w.p1).strong_form()
    elif ev == "set_globals":
        G = b.GLOBAL_PARAMETERS
        G.quadrature.regular = w.tok("g_reg")
        G.quadrature.singular = w.tok("g_sing")
        G.fmm.expansion_order = w.tok("g_exp")
    elif ev == "clear_fmm_cache":
        b.clear_fmm_cache()
    elif ev == "new_space":
        b.function_space(w.g, "DP", 1)
    elif ev == "mass_matrix":
        w.p1.mass_matrix()
        w.dp0.mass_matrix()
    else:
        raise KeyError(ev)


def histories(maxlen):
    out = [()]
    for n in range(1, maxlen + 1):
        out += list(itertools.product(EVENTS, repeat=n))
    return out


def run(ctx):
    import bempp_cl.api as b
    import bempp_cl.api.integration.triangle_gauss as tg
    import bempp_cl.api.integration.duffy_galerkin as dg
    import bempp_cl.api.integration.gauss as g1
    import bempp_cl.api.fmm.exafmm as fe
    from bempp_cl.api.utils.parameters import DefaultParameters

    maxlen = 3 if ctx.thorough else 2
    ctx.bound("histories", "all sequences of <= %d events from %s; the observed object is created before or after them" % (maxlen, EVENTS))
    ctx.bound("observed operations", ", ".join(KINDS))
    ctx.bound("parameters", "quadrature.regular, quadrature.singular, fmm.expansion_order, fmm.ncrit as unbounded symbolic integers (numerics run with the representative value %d on a tetrahedron)" % REP)
    ctx.out("single- vs double-precision agreement; product operators whose weak form contains a space-cached mass matrix (strong_form and mass_matrix are history events, not observables)")
    ctx.stub("exafmm package -> fake module + the library's dense_evaluation switch")
    LOG = []

    def wrap(mod, fname, role, pos=0):
        f = getattr(mod, fname)

        def wfn(*a, **k):
            LOG.append((role, fname, a[pos]))
            return f(*a, **k)

        return (mod, fname, wfn)

    real_from_grid = fe.ExafmmInterface.from_grid.__func__
    real_init = fe.ExafmmInterface.__init__

    def tagged_init(self, *a, **k):
        real_init(self, *a, **k)
        self._vf_tag = None

    def tagged_from_grid(cls, source_grid, mode, wavenumber=None, target_grid=None, precision="double", parameters=None, device_interface=None):
        obj = real_from_grid(cls, source_grid, mode, wavenumber=wavenumber, target_grid=target_grid, precision=precision, parameters=parameters, device_interface=device_interface)
        P = b.assign_parameters(parameters)
        obj._vf_tag = (P.quadrature.regular, P.fmm.expansion_order, P.fmm.ncrit)
        return obj

    saved = {n: sys.modules.get(n) for n in ("exafmm", "exafmm.laplace", "exafmm.helmholtz", "exafmm.modified_helmholtz")}
    pkg = fake_exafmm()
    sys.modules["exafmm"] = pkg
    for sub in ("laplace", "helmholtz", "modified_helmholtz"):
        sys.modules["exafmm." + sub] = getattr(pkg, sub)
    G = b.GLOBAL_PARAMETERS
    g_saved = (G.quadrature.regular, G.quadrature.singular, G.fmm.expansion_order, G.fmm.ncrit, G.fmm.dense_evaluation)
    import bempp_cl.api.fmm.fmm_assembler as fa

    real_get = fa.get_fmm_interface
    used_interfaces = []

    def get_fmm_interface(*a, **k):
        r = real_get(*a, **k)
        used_interfaces.append(r)
        return r

    patches = [wrap(tg, "rule", "regular"), wrap(tg, "get_number_of_quad_points", "regular"), wrap(dg, "rule", "singular"), wrap(dg, "number_of_quadrature_points", "singular"),
               (fe.ExafmmInterface, "__init__", tagged_init), (fe.ExafmmInterface, "from_grid", classmethod(tagged_from_grid)), (fa, "get_fmm_interface", get_fmm_interface)]
    t0 = time.time()
    nrun = 0
    seen_queries = {}
    try:
        with W.patched(*patches):
            for kind in KINDS:
                for hist in histories(maxlen):
                    for create_first in ((True, False) if hist else (True,)):
                        nrun += 1
                        b.clear_fmm_cache()
                        w = World(b, nrun)
                        P = w.params("p")
                        create, observe = make_observed(w, kind, P)
                        params = {"kind": kind, "history": list(hist), "create_first": create_first}
                        name = "%s/%s/%s" % (kind, "create-first" if create_first else "create-last", "+".join(hist) or "empty")
                        try:
                            obj = create() if create_first else None
                            for ev in hist:
                                do_event(w, ev, kind)
                            if obj is None:
                                obj = create()
                            del LOG[:]
                            del used_interfaces[:]
                            res1 = observe(obj)
                            log = list(LOG)
                            ifaces = list(used_interfaces)
                            # later change of the globals, then ask again: same object / same orders
                            do_event(w, "set_globals", kind)
                            del LOG[:]
                            res2 = observe(obj)
                            log2 = list(LOG)
                        except Exception as e:
                            ctx.violation(name + "/raises", "history", params, "%s: %s" % (type(e).__name__, str(e)[:200]))
                            continue
                        exp = {"regular": P.quadrature.regular, "singular": P.quadrature.singular}
                        claims = [term_of(o) == term_of(exp[role]) for role, fn, o in log + log2]
                        for itf in ifaces:
                            tag = getattr(itf, "_vf_tag", None)
                            if tag is not None:
                                claims += [term_of(tag[0]) == term_of(P.quadrature.regular), term_of(tag[1]) == term_of(P.fmm.expansion_order), term_of(tag[2]) == term_of(P.fmm.ncrit)]
                        same = True
                        if kind in ("dense_sl", "dense_hyp", "sparse_identity", "helm_imag_hyp"):
                            same = res1 is res2
                        elif kind == "helm_imag_dl":
                            same = all(r1 is r2 for r1, r2 in zip(res1, res2))
                        claims.append(z3.BoolVal(bool(same)))
                        claim = z3.And(*claims) if claims else z3.BoolVal(True)
                        key = kind + "|" + str(z3.simplify(claim))
                        if key in seen_queries:
                            seen_queries[key][1] += 1
                            continue
                        ob = ctx.prove(name, claim, [], family="history", params=params, abs_cons=False, group=kind)
                        seen_queries[key] = [ob, 1]
                        if len(ctx.samples) < 4:
                            ctx.sample({"history": params, "orders_recorded": [(r, f, repr(o)) for r, f, o in log][:6], "expected": {k_: repr(v_) for k_, v_ in exp.items()}})
    finally:
        (G.quadrature.regular, G.quadrature.singular, G.fmm.expansion_order, G.fmm.ncrit, G.fmm.dense_evaluation) = g_saved
        for n, m in saved.items():
            if m is None:
                sys.modules.pop(n, None)
            else:
                sys.modules[n] = m
        b.clear_fmm_cache()
    ctx.paths = nrun
    ctx.bound("histories_executed", nrun)
    ctx.notes.append("distinct queries: %d (identical claims from different histories are discharged once; multiplicities: %s)" % (len(seen_queries), sorted((v[1] for v in seen_queries.values()), reverse=True)[:8]))
    ctx.expect_sat("witness/tokens-may-differ", [z3.Int("g_reg_1") != z3.Int("p_reg_5")], abs_cons=False, group="witness")
    ctx.twin("twin/global-equals-explicit", z3.Int("g_reg_1") == z3.Int("p_reg_5"), [], abs_cons=False)
    ctx.encode_secs["histories"] = round(time.time() - t0, 2)
    ctx.log("%d histories executed, %d distinct queries, %.1fs" % (nrun, len(seen_queries), time.time() - t0))
    for kind in (KINDS if ctx.thorough else ("dense_sl", "fmm_sl")):
        ctx.concrete("history/%s" % kind, "history", {"kind": kind, "history": ["set_globals", "weak_other_global"], "create_first": True})


# model_checking evidence keys
def evidence_extra(ctx):
    return {"states": ctx.paths, "transitions": ctx.paths * 3}


# ----------------------------------------------------------------------------- concrete side (JIT)
def concrete(family, params):
    import bempp_cl.api as b
    from bempp_cl.api.utils.parameters import DefaultParameters

    sys.modules.setdefault("exafmm", fake_exafmm())
    pkg = sys.modules["exafmm"]
    for sub in ("laplace", "helmholtz", "modified_helmholtz"):
        sys.modules.setdefault("exafmm." + sub, getattr(pkg, sub))
    kind = params["kind"]

    class CW:
        def __init__(self):
            v, e, d = W.mesh("T6")
            self.b = b
            self.g = b.Grid(np.asarray(v, dtype=float), np.asarray(e))
            self.p1 = b.function_space(self.g, "P", 1)
            self.dp0 = b.function_space(self.g, "DP", 0)

        def tok(self, stem):
            return {"g_reg": 5, "g_sing": 3, "g_exp": 6, "g_ncrit": 300}.get(stem, 3)

        def params(self, stem):
            P = DefaultParameters()
            P.quadrature.regular = 6 if stem == "q" else 1
            P.quadrature.singular = 3 if stem == "q" else 1
            P.fmm.dense_evaluation = True
            return P

    def flat(r):
        if isinstance(r, (tuple, list)):
            return np.concatenate([flat(x) for x in r])
        if hasattr(r, "to_dense"):
            return np.asarray(r.to_dense(), dtype=complex).ravel()
        return np.asarray(r, dtype=complex).ravel()

    G = b.GLOBAL_PARAMETERS
    G.fmm.dense_evaluation = True
    # reference: a fresh state in which the SAME VALUES are set globally and no parameter object is passed
    b.clear_fmm_cache()
    w0 = CW()
    P0 = w0.params("p")
    G.quadrature.regular, G.quadrature.singular = P0.quadrature.regular, P0.quadrature.singular
    c0, o0 = make_observed(w0, kind, None)
    try:
        ref = flat(o0(c0()))
    except Exception as e:
        G.quadrature.regular, G.quadrature.singular = 4, 4
        return {"gap": 1.0, "raised": "reference: %s: %s" % (type(e).__name__, str(e)[:200]), "key": "history/%s/raises" % kind}
    # explicit parameter object + history, starting from the default globals
    G.quadrature.regular, G.quadrature.singular = 4, 4
    b.clear_fmm_cache()
    w = CW()
    P = w.params("p")
    create, observe = make_observed(w, kind, P)
    try:
        obj = create() if params.get("create_first", True) else None
        for ev in params["history"]:
            do_event(w, ev, kind)
        if obj is None:
            obj = create()
        got = flat(observe(obj))
    except Exception as e:
        return {"gap": 1.0, "raised": "%s: %s" % (type(e).__name__, str(e)[:200]), "key": "history/%s/raises" % kind}
    finally:
        G.quadrature.regular, G.quadrature.singular = 4, 4
    gap = float(np.max(np.abs(got - ref)) / max(np.max(np.abs(ref)), 1e-300)) if got.shape == ref.shape else 1.0
    return {"gap": gap if gap > 1e-10 else 0.0, "max_rel_diff": gap, "key": "history/%s" % kind}
